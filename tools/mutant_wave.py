#!/usr/bin/env python3
"""Run the design-phase mutant catalogue (mutants/candidates.json) against the
quick checks.  Each mutant is applied to a scratch worktree of /repo's HEAD
(never to /repo), the property's check runs with VERIF_REPO pointing there, and
the verdict is recorded in mutants/results.json."""
import json
import os
import shutil
import subprocess
import sys
import tempfile

HERE = os.path.dirname(os.path.dirname(os.path.abspath(__file__)))


def run(cmd, **kw):
    return subprocess.run(cmd, capture_output=True, text=True, **kw)


def main():
    only = set(sys.argv[1:])
    cands = json.load(open(os.path.join(HERE, "mutants", "candidates.json")))
    results = []
    if only and os.path.exists(os.path.join(HERE, "mutants", "results.json")):
        results = [r for r in json.load(open(os.path.join(
            HERE, "mutants", "results.json")))
            if r["id"] not in only and r["property"] not in only]
    respath = os.path.join(HERE, "mutants", "results.json")
    for c in cands:
        if only and c["id"] not in only and c["property"] not in only:
            continue
        wt = tempfile.mkdtemp(prefix="mw_", dir="/dev/shm")
        os.rmdir(wt)
        out = tempfile.mkdtemp(prefix="mwout_", dir="/dev/shm")
        r = run(["git", "-C", "/repo", "worktree", "add", "-q", "--detach", wt,
                 "HEAD"])
        rec = {"id": c["id"], "property": c["property"],
               "description": c["description"], "suite": c.get("suite")}
        try:
            path = os.path.join(wt, c["file"])
            src = open(path).read()
            if src.count(c["old"]) != 1 and not (c.get("all") and
                                                 src.count(c["old"]) > 1):
                rec["status"] = "not-applicable-to-current-tree"
                results.append(rec)
                print(rec["id"], rec["status"], flush=True)
                continue
            open(path, "w").write(src.replace(c["old"], c["new"]))
            if "--suite" in os.environ.get("MW_FLAGS", ""):
                s = run([os.path.join(HERE, "tools", "suite.sh"), wt])
                rec["suite_now"] = "pass" if s.returncode == 0 else "FAIL"
            props = [c["property"]] + c.get("also", [])
            env = dict(os.environ, VERIF_REPO=wt, VERIF_OUT=out)
            verdicts = {}
            for pid in props:
                k = run([os.path.join(HERE, "bin", "check"), pid], env=env)
                sigs = [l.strip() for l in k.stdout.splitlines()
                        if l.strip().startswith("sig:")]
                verdicts[pid] = {"exit": k.returncode, "sigs": sigs[:3]}
                if k.returncode == 2:
                    verdicts[pid]["stderr"] = k.stderr[-400:]
            rec["verdicts"] = verdicts
            rec["status"] = "DETECTED" if any(
                v["exit"] == 1 for v in verdicts.values()) else (
                "INFRA" if any(v["exit"] == 2 for v in verdicts.values())
                else "missed")
            print(rec["id"], rec["property"], rec["status"],
                  (verdicts[c["property"]]["sigs"] or [""])[0][:150],
                  flush=True)
            results.append(rec)
        finally:
            run(["git", "-C", "/repo", "worktree", "remove", "--force", wt])
            shutil.rmtree(out, ignore_errors=True)
        json.dump(results, open(respath, "w"), indent=1)
    det = sum(1 for r in results if r["status"] == "DETECTED")
    print(f"detected {det} / {len(results)}")


if __name__ == "__main__":
    main()
