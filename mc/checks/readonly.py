"""C18 — inspecting commands are read-only; create writes exactly one file;
rename never clobbers.  Full product of small configuration axes; oracle =
before/after snapshots + audit monitor of C-level filesystem events."""
import itertools
import os

from mc import core, envrun, seams, tf, world
from mc.ref import bencode, model

P0 = 16384
NAME = world.ROOT_NAME
CREATION = {"open-create", "os.mkdir", "os.link", "os.symlink", "os.rename",
            "os.remove", "os.rmdir", "shutil.move", "shutil.rmtree",
            "tempfile.mkstemp", "tempfile.mkdtemp"}

VERSIONS = {"v1": "TorrentFile", "v2": "Assembler2", "hy": "Assembler3",
            # a conformant metafile of another encoder: string url-list,
            # two tracker tiers, unknown keys
            "foreign": None}


# process-environment axis: names of the torrent (info.name) and the body the
# child interpreter runs (one command line per entry, each on a sandbox of
# its own built by the parent)
PENV_NAMES = ["top", "café-音楽"]
_PENV_BODY = r'''
import json, os
C = json.loads({blob!r})
from torrentfile import cli
OBS = {{}}
for key, argv in C["runs"]:
    try:
        cli.execute(argv)
        OBS[key] = ["ok", None]
    except BaseException as e:
        OBS[key] = ["raised:" + type(e).__name__, str(e)[:100]]
'''


def temp_names(T):
    """Customary temporary / backup / lock names a writer might use next to
    an output file called T (stem S = T without '.torrent'); all of them are
    bystanders that `create` has to leave alone."""
    S = T[:-len(".torrent")] if T.endswith(".torrent") else T
    return [T + ".part", T + ".tmp", T + "~", T + ".bak", T + ".swp",
            "." + T + ".swp", T + ".new", T + ".lock", T + ".1", T + ".old",
            T + ".orig", T + ".temp", T + ".partial", T + ".download",
            "." + T, "." + T + ".tmp", "." + T + ".part", "#" + T + "#",
            "~" + T, S + ".part", S + ".tmp", S + "~", S + ".torrent.0",
            T + ".torrent"]


# what an output path that is a symbolic link points to (the link text)
LINK_KINDS = {
    # a relative link to a name in the same directory that does not exist
    "dangling": lambda sb: "elsewhere.torrent",
    # an absolute link to a missing name in another (existing) directory
    "dangling-far": lambda sb: os.path.join(sb, "far", "real.torrent"),
    # a relative link to an existing file in the same directory
    "live": lambda sb: "real-output.torrent",
    # a link to a link to a missing name (thorough tier)
    "dangling-chain": lambda sb: "hop.torrent",
}


def build_sandbox(seed, version, pstate):
    """sandbox/
         cwd/            (.torrent, top.torrent?, unrelated.txt)
         data/top/...    payload (possibly damaged)
         meta/m.torrent  metafile
         outdir/         (.torrent, other.txt)
    """
    sb = world.fresh_dir("c18_")
    data = os.path.join(sb, "data")
    os.mkdir(data)
    files = [(("a",), world.content(seed, 0, 20000)),
             (("d", "b"), world.content(seed, 1, P0 + 1)),
             (("d", "e"), b""),
             (("z",), world.content(seed, 2, 7))]
    root = world.materialize(files, data)
    meta = os.path.join(sb, "meta")
    os.mkdir(meta)
    mpath = os.path.join(meta, "m.torrent")
    tf.reset_process_state()
    if version == "foreign":
        m = model.ref_hybrid(NAME, dict(files), P0, 16384)
        m[b"url-list"] = b"http://w/single-string"
        m[b"announce"] = b"http://t/b"
        m[b"announce-list"] = [[b"http://t/a"], [b"http://t/b"]]
        m[b"comment"] = b"top-level comment"
        m[b"info"][b"x-unknown"] = [b"\xff", 1]
        with open(mpath, "wb") as f:
            f.write(bencode.encode(m))
    else:
        tf.create(VERSIONS[version], root, mpath, P0,
                  announce=["http://t/a"], url_list=["http://w/"])
    if pstate == "damaged":
        p = os.path.join(root, "d", "b")
        with open(p, "r+b") as f:
            f.seek(100)
            f.write(b"\xee\xee")
    elif pstate == "missing":
        os.remove(os.path.join(root, "a"))
    for d in ("cwd", "outdir"):
        dd = os.path.join(sb, d)
        os.mkdir(dd)
        world.write_file(os.path.join(dd, ".torrent"), b"user file named .torrent")
        world.write_file(os.path.join(dd, "unrelated.txt"), b"keep me")
    return sb, root, mpath


def diff(before, after):
    changed = sorted(k for k in set(before) | set(after)
                     if before.get(k) != after.get(k))
    return changed


def entries(snap, names, sb):
    """The snapshot entries of `names` for a violation's detail: type, size,
    link text.  Kept free of what differs from run to run: the scratch path
    is masked, digests are left out (metafiles carry a creation date)."""
    return {c: [snap[c][0], snap[c][1]] + (
        [snap[c][2].replace(sb, "<SB>")] if snap[c][0] == "l" else [])
        for c in names if c in snap}


class ReadOnlyCheck:
    id = "C18"

    def __init__(self):
        self.assumptions = [
            "sandbox = payload (intact / one file damaged / one file missing) "
            "+ metafile (v1, v2, hybrid) + unrelated files including one "
            "literally named '.torrent' in the working and output directories",
            "read-only commands: recheck|check|info|magnet|m x (-q|-v|plain) "
            "x content root|parent x magnet --meta-version 0..3 + library "
            "calls; judged by before/after snapshot (names, types, bytes, "
            "mode bits) and by an audit hook that must see no creation or "
            "deletion event on any sandbox path and no open of an existing "
            "sandbox file with O_TRUNC (a transient modification)",
            "create: create|new|implicit x -o file|dir/|default-in-cwd x "
            "--prog 0/1/2 x --magnet x option sets x pre-existing output; "
            "judged on the before/after difference only",
            "create also on a single-file payload whose own name ends in "
            ".torrent with a derived output name in the payload's directory",
            "a fourth metafile kind: a conformant hybrid of another encoder "
            "(string url-list, two tracker tiers, unknown keys)",
            "rename also on a decodable but non-canonical metafile (bytes "
            "must stay identical)",
            "rename: target name free / taken (by a file, by a directory, "
            "with the current name differing only in case, with a relative "
            "argument) / already correct",
            "create bystanders 'temps': 24 neighbours named after the output "
            "metafile T with the customary temporary / backup / lock "
            "suffixes and prefixes (T.part, T.tmp, T~, T.bak, T.swp, .T.swp, "
            "T.new, T.lock, T.1, .T, #T#, stem.part, ...) beside the output "
            "path (the first four also in the other one of output / working "
            "directory), for every head x output "
            "location (explicit -o, -o dir/, default in cwd; fresh / "
            "existing / existing-empty), x option set under the head "
            "'create' (thorough: under every head)",
            "create with the output path being a symbolic link (relative "
            "dangling, absolute dangling into another directory, live; "
            "thorough: a dangling chain, x --magnet x option sets x temps) "
            "for -o file, -o dir/ and the default name in cwd; accepted: "
            "the metafile written THROUGH the link (link unchanged, the file "
            "it leads to created / replaced) or the link REPLACED by a "
            "regular file - in both cases that one path is the whole "
            "before/after difference",
            "create with the probe name '.torrent' of the output / working "
            "directory being a symbolic link (dangling, live)",
            "rename through an alias: argument = the metafile / a symbolic "
            "link beside it (relative, absolute, chain of two; thorough: "
            "'./' text, chain of three, absolute chain, relative argument) "
            "/ a second hard-linked name, x the metafile already properly "
            "named (the proper name is taken by the alias's own target: the "
            "file must stay untouched; no error demanded; only the alias "
            "entry may disappear) / proper name free (exactly one entry - "
            "the one named or the file a symbolic link leads to - takes the "
            "name, same bytes) / taken by a file, a dangling symbolic link, "
            "a live symbolic link, a symbolic link to a directory (error, "
            "nothing changes: a symbolic link is an existing entry)",
            "process-environment group (mc/envrun.py): one child interpreter "
            "per member of envrun.ENVS (ASCII filesystem / locale encodings "
            "with UTF-8 mode off, POSIX locale, terminal widths, -O, stdout "
            "closed / full / ascii-only, removed working directory, -W "
            "error, low recursion / descriptor limits, umasks, no HOME, ...) "
            "runs, through cli.execute, rename x info.name {ASCII, "
            "`café-音楽`} x proper name {free, taken by another file whose "
            "name is the UTF-8 bytes of <info.name>.torrent, already "
            "carried} x metafile {v1, hybrid; thorough: v2} and info / "
            "magnet / recheck <root> / recheck <parent> x info.name {ASCII, "
            "non-ASCII; one payload file named `été`} x {v1, v2, hybrid}, "
            "each on a sandbox of its own that the parent builds (reference "
            "encoder metafiles) and snapshots before and after; the child's "
            "working directory is watched too.  Same snapshot oracle in "
            "every environment; reading: with the proper name free a rename "
            "may, outside the baseline environment, refuse (nothing "
            "changes) or give the metafile's entry - and nothing else - a "
            "new name with the same bytes; a command that raises is never a "
            "violation by itself there.  No audit hook runs in the child "
            "(transient create-then-delete is judged by the in-process "
            "groups only)",
        ]
        self.rule = (
            "full product of the configuration axes; state = one distinct "
            "(sandbox, command line); transition = one command executed on "
            "the real code; oracle = snapshot difference + audited events; "
            "rename's alias axes (argument alias x proper-name occupant) and "
            "create's link axes (output location x link kind) are full "
            "products too, snapshots taken without following links; "
            "process-environment axis: (rename x name ASCII / non-ASCII x "
            "proper name free / taken / already carried, read-only commands "
            "x name ASCII / non-ASCII x metafile kind) x every named process "
            "environment of mc/envrun.py, commands executed in a child "
            "interpreter under that environment, sandboxes built and "
            "snapshotted by the parent")

    def groups(self, tier, seed):
        gs = []
        for v in VERSIONS:
            for ps in ("intact", "damaged", "missing"):
                gs.append({"kind": "readonly", "version": v, "pstate": ps,
                           "seed": seed})
            if v != "foreign":
                gs.append({"kind": "create", "version": v, "seed": seed,
                           "tier": tier})
            gs.append({"kind": "rename", "version": v, "seed": seed,
                       "tier": tier})
        for env in envrun.ENVS:
            gs.append({"kind": "penv", "env": env, "seed": seed,
                       "tier": tier})
        return gs

    # ------------------------------------------------------------------
    def readonly_commands(self, root, mpath):
        parent = os.path.dirname(root)
        cmds = []
        relm = os.path.join("..", "meta", "m.torrent")
        relroot = os.path.join("..", "data", NAME)
        for pre in ([], ["-q"], ["-v"], ["-q", "-v"], ["-v", "-q"]):
            for word in ("recheck", "check"):
                for content in (root, parent):
                    cmds.append(("cli", pre + [word, mpath, content]))
            # relative spellings (the working directory is sandbox/cwd)
            cmds.append(("cli", pre + ["recheck", relm, relroot]))
            cmds.append(("cli", pre + ["info", relm]))
            cmds.append(("cli", pre + ["magnet", relm]))
            for word in ("info",):
                cmds.append(("cli", pre + [word, mpath]))
            for word in ("magnet", "m"):
                cmds.append(("cli", pre + [word, mpath]))
                for mv in "0123":
                    cmds.append(("cli", pre + [word, mpath, "--meta-version",
                                               mv]))
        cmds.append(("lib-checker", [mpath, root]))
        cmds.append(("lib-checker", [mpath, parent]))
        cmds.append(("lib-magnet", [mpath]))
        cmds.append(("lib-info", [mpath]))
        return cmds

    def exec_cmd(self, kind, args, cwd):
        old = os.getcwd()
        os.chdir(cwd)
        try:
            with tf.quiet():
                if kind == "cli":
                    return tf.cli.execute(list(args))
                if kind == "lib-checker":
                    return tf.recheck.Checker(*args).results()
                if kind == "lib-magnet":
                    return tf.commands.magnet(args[0])
                if kind == "lib-info":
                    import argparse
                    return tf.commands.info(argparse.Namespace(
                        metafile=args[0]))
        finally:
            os.chdir(old)

    def run_readonly(self, g, res):
        seed = g["seed"]
        sb, root, mpath = build_sandbox(seed, g["version"], g["pstate"])
        cwd = os.path.join(sb, "cwd")
        before = world.snapshot(sb)
        for kind, args in self.readonly_commands(root, mpath):
            shown = [a.replace(sb, "<SB>") for a in args]
            err = None
            with seams.Audit(sb) as audit:
                try:
                    self.exec_cmd(kind, args, cwd)
                except BaseException as e:  # noqa
                    err = type(e).__name__
            after = world.snapshot(sb)
            res.states += 1
            res.transitions += 1
            res.evals += 1
            res.validated += 1
            changed = diff(before, after)
            created = [e for e in audit.events if e[0] in CREATION]
            trunc = [e for e in audit.raw_events_with_flags()
                     if e[0] == "open-w" and e[2] & os.O_TRUNC]
            if trunc:
                res.violation(f"C18|{kind}:{[a for a in shown if not a.startswith('-')][0] if kind == 'cli' else shown[0]}|truncates-existing-file|"
                              f"{g['pstate']}",
                              {"kind": "readonly", "version": g["version"],
                               "pstate": g["pstate"], "cmd": kind,
                               "args": shown, "seed": seed},
                              {"events": [list(e) for e in trunc[:4]]})
            rw = [e for e in audit.events if e[0] == "open-w"]
            if rw:
                res.extra["diagnostic_open_for_write_without_change"] += 1
            word = shown[0] if kind != "cli" else \
                [a for a in shown if not a.startswith("-")][0]
            case = {"kind": "readonly", "version": g["version"],
                    "pstate": g["pstate"], "cmd": kind, "args": shown,
                    "seed": seed}
            if changed:
                res.violation(f"C18|{kind}:{word}|sandbox-changed|"
                              f"{g['pstate']}", case,
                              {"changed": changed[:6], "error": err})
            if created:
                res.violation(f"C18|{kind}:{word}|creates-or-deletes|"
                              f"{g['pstate']}", case,
                              {"events": [list(e) for e in created[:6]]})
            res.outcomes["ok" if not (changed or created or trunc)
                         else "changed"] += 1
            if changed:
                # rebuild the sandbox so later commands start clean
                sb, root, mpath = build_sandbox(seed, g["version"],
                                                g["pstate"])
                cwd = os.path.join(sb, "cwd")
                before = world.snapshot(sb)
        res.sample({"kind": "readonly", "version": g["version"],
                    "pstate": g["pstate"]})

    def create_cases(self, tier):
        heads = ["create", "new", "implicit", "config"]
        outs = ["file", "file-existing", "dir/", "default", "default-existing"]
        progs = ["0", "1", "2"]
        mags = [False, True]
        optsets = ["none", "all", "align"]
        for head, out, prog, mag, optset in itertools.product(
                heads, outs, progs, mags, optsets):
            yield {"head": head, "out": out, "prog": prog, "magnet": mag,
                   "opts": optset}
        # bystanders in the output directory and the working directory, and
        # creates that fail before anything is written
        for head, out, optset in itertools.product(heads, outs + [
                "file-existing-empty"], optsets):
            for by in ("dot-empty", "dot-full", "name-empty", "temps"):
                # quick: the temporary-name neighbours meet every head and
                # output location, the option sets under 'create' only
                if by == "temps" and tier != "thorough" and \
                        optset != "none" and head != "create":
                    continue
                yield {"head": head, "out": out, "prog": "0", "magnet": False,
                       "opts": optset, "by": by}
            yield {"head": head, "out": out, "prog": "0", "magnet": False,
                   "opts": optset, "by": "dot-empty", "fail": "missing"}
            yield {"head": head, "out": out, "prog": "0", "magnet": False,
                   "opts": optset, "fail": "missing"}
        # the output path is a symbolic link (dangling / live / chain), and
        # the probe name '.torrent' in the output directory is one
        thorough = tier == "thorough"
        for head in heads:
            for base in ("file", "dir/", "default"):
                for lk in LINK_KINDS:
                    if lk == "dangling-chain" and not thorough:
                        continue
                    for mag, optset in (itertools.product(mags, optsets)
                                        if thorough else [(False, "none")]):
                        yield {"head": head, "out": base + "@" + lk,
                               "prog": "0", "magnet": mag, "opts": optset}
                    if thorough:
                        yield {"head": head, "out": base + "@" + lk,
                               "prog": "0", "magnet": False, "opts": "none",
                               "by": "temps"}
                for by in ("dot-link-dangling", "dot-link-live"):
                    # (with an explicit -o file the name '.torrent' plays no
                    # part; those are the thorough tier's controls)
                    for out in ((base,) if base == "dir/" else
                                (base, base + "-existing")
                                if base == "default" or thorough else ()):
                        yield {"head": head, "out": out, "prog": "0",
                               "magnet": False, "opts": "none", "by": by}

    def run_create_single(self, g, res):
        """A single-file payload whose own name ends in .torrent, output name
        derived (no -o with cwd = its parent, or -o <parent>/)."""
        seed = g["seed"]
        version = {"v1": "1", "v2": "2", "hy": "3"}[g["version"]]
        for pname in ("bundle.torrent", "bundle.bin", "torrent"):
            for mode in ("cwd", "dir/", "elsewhere/"):
                sb = world.fresh_dir("c18s_")
                share = os.path.join(sb, "share")
                other = os.path.join(sb, "other")
                os.mkdir(share)
                os.mkdir(other)
                payload = os.path.join(share, pname)
                world.write_file(payload, world.content(seed, 5, 40000))
                world.write_file(os.path.join(share, "unrelated.txt"), b"keep")
                argv = ["create", payload, "--meta-version", version,
                        "--prog", "0"]
                if mode == "cwd":
                    cwd, odir = share, share
                elif mode == "dir/":
                    cwd, odir = other, share
                    argv += ["-o", share + os.sep]
                else:
                    cwd, odir = share, other
                    argv += ["-o", other + os.sep]
                target = os.path.join(odir, pname + ".torrent")
                before = world.snapshot(sb)
                err = None
                try:
                    self.exec_cmd("cli", argv, cwd)
                except BaseException as e:  # noqa
                    err = type(e).__name__ + ":" + str(e)[:60]
                after = world.snapshot(sb)
                res.states += 1
                res.transitions += 1
                res.evals += 1
                res.validated += 1
                changed = diff(before, after)
                trel = os.path.relpath(target, sb)
                prel = os.path.relpath(payload, sb)
                prob = None
                if before.get(prel) != after.get(prel):
                    prob = "payload-modified"
                elif err:
                    prob = "create-raised"
                elif [c for c in changed if c != trel]:
                    prob = "changes-other-path"
                elif trel not in changed:
                    prob = "output-not-written"
                res.outcomes[prob or "ok"] += 1
                if prob:
                    res.violation(
                        f"C18|create|{prob}|single-file-payload|out={mode}",
                        {"kind": "create-single", "version": g["version"],
                         "pname": pname, "mode": mode, "seed": seed},
                        {"changed": changed[:6], "error": err})

    def run_create(self, g, res):
        seed = g["seed"]
        self.run_create_single(g, res)
        version = {"v1": "1", "v2": "2", "hy": "3"}[g["version"]]
        for cc in self.create_cases(g.get("tier", "quick")):
            if cc["opts"] == "align" and version != "1":
                continue
            sb, root, mpath = build_sandbox(seed, g["version"], "intact")
            cwd = os.path.join(sb, "cwd")
            outdir = os.path.join(sb, "outdir")
            argv = [] if cc["head"] == "implicit" else [cc["head"]]
            if cc["head"] == "config":
                cfg = os.path.join(cwd, "my.ini")
                world.write_file(cfg, b"[config]\ncomment = from config\n"
                                      b"announce =\n    http://c/a\n")
                argv = ["create", "--config", "--config-path", cfg]
            content_arg = root if not cc.get("fail") else \
                os.path.join(sb, "no", "such", NAME)
            argv += [content_arg, "--meta-version", version, "--prog",
                     cc["prog"], "--piece-length", str(P0)]
            obase, _, lkind = cc["out"].partition("@")
            if obase.startswith("file"):
                target = os.path.join(outdir, "result.torrent")
                argv += ["-o", target]
            elif obase == "dir/":
                target = os.path.join(outdir, NAME + ".torrent")
                argv += ["-o", outdir + os.sep]
            else:
                target = os.path.join(cwd, NAME + ".torrent")
            resolved = None
            if lkind:
                # the output path is a symbolic link
                tdir = os.path.dirname(target)
                world.write_file(os.path.join(sb, "far", "unrelated.txt"),
                                 b"keep me too")
                text = LINK_KINDS[lkind](sb)
                os.symlink(text, target)
                if lkind == "live":
                    world.write_file(os.path.join(tdir, text),
                                     b"old metafile bytes behind a link")
                if lkind == "dangling-chain":
                    os.symlink("end-of-chain.torrent",
                               os.path.join(tdir, text))
                resolved = os.path.realpath(target)
            if cc["out"].endswith("existing"):
                world.write_file(target, b"old metafile bytes")
            if cc["out"].endswith("existing-empty"):
                world.write_file(target, b"")
            for d_ in (outdir, cwd):
                os.makedirs(d_, exist_ok=True)
                if cc.get("by") == "dot-empty":
                    world.write_file(os.path.join(d_, ".torrent"), b"")
                elif cc.get("by") == "dot-full":
                    world.write_file(os.path.join(d_, ".torrent"), b"mine")
                elif cc.get("by") == "name-empty":
                    world.write_file(os.path.join(d_, NAME), b"")
                    world.write_file(os.path.join(d_, "torrent"), b"")
                elif cc.get("by") == "temps":
                    # neighbours named after the output metafile with the
                    # customary temporary suffixes and prefixes
                    # (all of them beside the output path; the first four
                    # also in the other directory)
                    tns = temp_names(os.path.basename(target))
                    if d_ != os.path.dirname(target):
                        tns = tns[:4]
                    for i, tn in enumerate(tns):
                        world.write_file(
                            os.path.join(d_, tn),
                            b"" if i % 7 == 6 else b"user's own %d" % i)
                elif cc.get("by") == "dot-link-dangling":
                    os.remove(os.path.join(d_, ".torrent"))
                    os.symlink("dot-gone", os.path.join(d_, ".torrent"))
                elif cc.get("by") == "dot-link-live":
                    os.remove(os.path.join(d_, ".torrent"))
                    os.symlink("unrelated.txt", os.path.join(d_, ".torrent"))
            if cc["magnet"]:
                argv.append("--magnet")
            if cc["opts"] == "all":
                argv += ["--announce", "http://t/a", "http://t/b",
                         "--web-seed", "http://w/", "--http-seed",
                         "http://h/", "--private", "--source", "s",
                         "--comment", "c"]
            if cc["opts"] == "align":
                argv.append("--align")
            before = world.snapshot(sb)
            err = None
            try:
                self.exec_cmd("cli", argv, cwd)
            except BaseException as e:  # noqa
                err = type(e).__name__ + ":" + str(e)[:60]
            after = world.snapshot(sb)
            res.states += 1
            res.transitions += 1
            res.evals += 1
            res.validated += 1
            changed = diff(before, after)
            trel = os.path.relpath(target, sb)
            case = dict(cc, kind="create", version=g["version"], seed=seed,
                        tier=g.get("tier", "quick"))
            prob = None
            rrel = os.path.relpath(resolved, sb) if resolved else None
            if lkind and not err:
                # 'exactly one file, the output metafile' when the output
                # path is a symbolic link: either written THROUGH the link
                # (the link stays, the file it leads to is created or
                # replaced) or the link itself is REPLACED by a regular file;
                # either way nothing else appears, changes or disappears
                through = (changed == [rrel] and after[rrel][0] == "f")
                replaced = (changed == [trel] and after[trel][0] == "f")
                if not (through or replaced):
                    others = [c for c in changed if c not in (trel, rrel)]
                    gone = [c for c in others if c not in after]
                    if gone:
                        prob = "deletes-other-file:" + os.path.basename(
                            gone[0])
                    elif others:
                        prob = "changes-other-path"
                    elif not changed:
                        prob = "output-not-written"
                    elif after.get(trel, ("",))[0] == "f" and \
                            rrel in changed:
                        # both at once: the link was replaced by a regular
                        # file AND the file it led to was created / altered
                        prob = "link-replaced-and-its-target-" + (
                            "altered" if rrel in before else "created")
                    else:
                        prob = "output-metafile-missing"
            elif cc.get("fail"):
                # nothing may change when the create fails up front
                if changed:
                    gone = [c for c in changed if c not in after]
                    prob = ("failed-create-deletes:" + os.path.basename(
                        gone[0]) if gone else "failed-create-changes-path")
                elif not err:
                    res.outcomes["failing-create-did-not-raise"] += 1
            elif err:
                prob = "create-raised"
            elif trel not in after or after[trel][0] != "f":
                prob = "output-metafile-missing"
            elif [c for c in changed if c != trel]:
                others = [c for c in changed if c != trel]
                gone = [c for c in others if c not in after]
                prob = ("deletes-other-file:" + os.path.basename(gone[0])
                        if gone else "changes-other-path")
            elif trel not in changed:
                prob = "output-not-written"
            res.outcomes[prob or "ok"] += 1
            if prob:
                by = cc.get("by", "")
                oclass = obase + ("@" + lkind.split("-")[0] if lkind else "")
                res.violation(
                    f"C18|create|{prob}|out={oclass}" + (
                        f"|by={by}" if by.startswith(("temps", "dot-link"))
                        else ""), case,
                    {"changed": changed[:6], "error": err,
                     "before": entries(before, changed[:6], sb),
                     "after": entries(after, changed[:6], sb)})
        res.sample({"kind": "create", "version": g["version"]})

    def run_rename(self, g, res):
        seed = g["seed"]
        for variant in ("free", "free-noncanonical", "taken",
                        "already-correct", "taken-by-dir",
                        "taken-case-variant", "taken-relative"):
            sb, root, mpath = build_sandbox(seed, g["version"], "intact")
            cwd = os.path.join(sb, "cwd")
            mdir = os.path.dirname(mpath)
            target = os.path.join(mdir, NAME + ".torrent")
            src = mpath
            if variant == "taken-case-variant":
                # the current name differs from the target only in case
                src = os.path.join(mdir, NAME.upper() + ".Torrent")
                os.rename(mpath, src)
                world.write_file(target, b"someone else's file")
            if variant == "taken-relative":
                world.write_file(target, b"someone else's file")
            if variant == "taken":
                world.write_file(target, b"someone else's file")
            elif variant == "taken-by-dir":
                os.mkdir(target)
            elif variant == "already-correct":
                os.rename(mpath, target)
                src = target
            if variant == "free-noncanonical":
                # decodable, but not what a re-encoding would write: a
                # leading-zero integer and a line feed after the dictionary
                with open(src, "rb") as f:
                    body = f.read()
                body = body[:-1] + b"5:zzpad" + b"i007e" + b"e\n"
                with open(src, "wb") as f:
                    f.write(body)
            with open(src, "rb") as f:
                raw = f.read()
            before = world.snapshot(sb)
            err = None
            arg, rcwd = src, cwd
            if variant == "taken-relative":
                arg, rcwd = os.path.basename(src), mdir
            try:
                self.exec_cmd("cli", ["rename", arg], rcwd)
            except BaseException as e:  # noqa
                err = type(e).__name__
            after = world.snapshot(sb)
            changed = diff(before, after)
            res.states += 1
            res.transitions += 1
            res.evals += 1
            res.validated += 1
            prob = None
            srel, trel = os.path.relpath(src, sb), os.path.relpath(target, sb)
            if variant in ("free", "free-noncanonical"):
                if err:
                    prob = "rename-raised:" + err
                elif sorted(changed) != sorted([srel, trel]):
                    prob = "other-paths-changed"
                elif srel in after or after.get(trel, (None,))[0] != "f":
                    prob = "name-not-changed"
                else:
                    with open(target, "rb") as f:
                        if f.read() != raw:
                            prob = "bytes-changed"
            else:
                if changed:
                    prob = "clobbered-or-changed-existing"
                elif not err and variant != "already-correct":
                    prob = "no-error-when-target-taken"
            res.outcomes[prob or "ok"] += 1
            if prob:
                res.violation(f"C18|rename|{prob}|{variant}",
                              {"kind": "rename", "variant": variant,
                               "version": g["version"], "seed": seed},
                              {"changed": changed, "error": err})
        res.sample({"kind": "rename", "version": g["version"]})
        self.run_rename_links(g, res)
        # names near the file-name length limit, with other metafiles lying
        # under every shortened form of the wanted name
        for L in (100, 245, 246, 247, 248, 249, 250, 251, 254, 255, 256, 300):
            variant = f"longname:{L}"
            sb = world.fresh_dir("c18n_")
            mdir = os.path.join(sb, "meta")
            os.mkdir(mdir)
            name = ("n" * L)[:L - 6] + "-disc2"
            tree = {(): world.content(seed, 3, 5)}
            ver = g["version"]
            m = model.ref_v1(name, tree, P0) if ver in ("v1", "foreign") \
                else (model.ref_v2(name, tree, P0, 16384) if ver == "v2"
                      else model.ref_hybrid(name, tree, P0, 16384))
            src = os.path.join(mdir, "download(1).torrent")
            raw = bencode.encode(m)
            world.write_file(src, raw)
            for k in range(200, 256):
                for suffix in (".torrent", ""):
                    short = name[:k] + suffix
                    if short != name + ".torrent" and \
                            len(short.encode()) <= 255 and k < L:
                        world.write_file(os.path.join(mdir, short),
                                         b"someone else's file %d" % k)
            target = os.path.join(mdir, name + ".torrent")
            before = world.snapshot(sb)
            err = None
            try:
                self.exec_cmd("cli", ["rename", src], mdir)
            except BaseException as e:  # noqa
                err = type(e).__name__
            after = world.snapshot(sb)
            changed = diff(before, after)
            res.states += 1
            res.transitions += 1
            res.evals += 1
            res.validated += 1
            srel, trel = os.path.relpath(src, sb), os.path.relpath(target, sb)
            prob = None
            created = [c for c in changed if c not in before]
            if [c for c in changed if c in before and c != srel]:
                # a file that was there before (other than the metafile being
                # renamed) was replaced, altered or removed
                prob = "clobbered-or-changed-existing"
            elif changed and (srel in after or len(created) != 1):
                prob = "name-not-changed"
            elif changed:
                # under whatever new name: the same bytes
                with open(os.path.join(sb, created[0]), "rb") as f:
                    if f.read() != raw:
                        prob = "bytes-changed"
            elif not err:
                prob = "nothing-renamed-and-no-error"
            res.outcomes[prob or "ok"] += 1
            if prob:
                res.violation(f"C18|rename|{prob}|longname",
                              {"kind": "rename", "variant": variant,
                               "version": g["version"], "seed": seed},
                              {"changed": changed[:4], "error": err})

    def link_variants(self, tier):
        """(alias, place, occupant, argument spelling): how the argument names
        the metafile (directly, through a symbolic link beside it - relative,
        absolute, a chain -, or under a second hard-linked name), whether the
        metafile already carries its proper name, and what sits at the proper
        name otherwise."""
        thorough = tier == "thorough"
        aliases = ["none", "sym-rel", "sym-abs", "sym-chain", "hard"]
        if thorough:
            aliases += ["sym-dot", "sym-chain3", "sym-abs-chain"]
        out = []
        for alias in aliases:
            for place, occ in [("proper", "self"), ("m", "none"),
                               ("m", "file"), ("m", "dangling-link"),
                               ("m", "live-link"), ("m", "link-to-dir")]:
                if alias == "none" and occ in ("self", "none", "file"):
                    continue        # the plain variants of run_rename
                for spell in (("abs", "rel") if thorough else ("abs",)):
                    out.append((alias, place, occ, spell))
        return out

    def run_rename_links(self, g, res):
        """rename when the argument is an alias of the metafile and / or the
        proper name is occupied by a symbolic link."""
        seed = g["seed"]
        tier = g.get("tier", "quick")
        for alias, place, occ, spell in self.link_variants(tier):
            variant = f"{alias}:{place}:{occ}" + (
                ":relarg" if spell == "rel" else "")
            sb, root, mpath = build_sandbox(seed, g["version"], "intact")
            cwd = os.path.join(sb, "cwd")
            mdir = os.path.dirname(mpath)
            target = os.path.join(mdir, NAME + ".torrent")
            real = mpath
            if place == "proper":
                os.rename(mpath, target)
                real = target
            elif occ == "file":
                world.write_file(target, b"someone else's file")
            elif occ == "dangling-link":
                os.symlink("no-such-file", target)
            elif occ == "live-link":
                world.write_file(os.path.join(mdir, "other.bin"),
                                 b"someone else's data")
                os.symlink("other.bin", target)
            elif occ == "link-to-dir":
                os.mkdir(os.path.join(mdir, "somedir"))
                os.symlink("somedir", target)
            rbase = os.path.basename(real)
            src = os.path.join(mdir, "latest.torrent")
            if alias == "none":
                src = real
            elif alias == "sym-rel":
                os.symlink(rbase, src)
            elif alias == "sym-dot":
                os.symlink(os.path.join(".", rbase), src)
            elif alias == "sym-abs":
                os.symlink(real, src)
            elif alias in ("sym-chain", "sym-chain3", "sym-abs-chain"):
                hop = os.path.join(mdir, "hop.torrent")
                if alias == "sym-chain3":
                    os.symlink(rbase, os.path.join(mdir, "hop2.torrent"))
                    os.symlink("hop2.torrent", hop)
                else:
                    os.symlink(rbase, hop)
                os.symlink(hop if alias == "sym-abs-chain"
                           else "hop.torrent", src)
            elif alias == "hard":
                os.link(real, src)
            with open(src, "rb") as f:
                raw = f.read()
            before = world.snapshot(sb)
            err = None
            arg, rcwd = (src, cwd) if spell == "abs" else \
                (os.path.basename(src), mdir)
            try:
                self.exec_cmd("cli", ["rename", arg], rcwd)
            except BaseException as e:  # noqa
                err = type(e).__name__
            after = world.snapshot(sb)
            changed = diff(before, after)
            res.states += 1
            res.transitions += 1
            res.evals += 1
            res.validated += 1
            srel, trel = os.path.relpath(src, sb), os.path.relpath(target, sb)
            prob = None
            if place == "proper":
                # the proper name is taken by the metafile itself: the file
                # must stay as it is (an error is not demanded; dropping the
                # alias entry alone would not replace or alter anything)
                if changed and not (changed == [srel] and srel != trel
                                    and srel not in after):
                    prob = "clobbered-or-changed-existing"
            elif occ != "none":
                # whatever occupies the proper name - also a symbolic link,
                # dangling or not - is an existing entry: refuse, touch nothing
                if changed:
                    prob = "clobbered-or-changed-existing"
                elif not err:
                    prob = "no-error-when-target-taken"
            else:
                # free: exactly one entry takes the proper name - the entry
                # the argument names or, for a symbolic link, the file it
                # leads to - and the bytes read under that name are the same
                movers = [srel] + ([os.path.relpath(real, sb)]
                                   if alias.startswith("sym") else [])
                if err:
                    prob = "rename-raised:" + err
                elif not any(sorted(changed) == sorted([m, trel])
                             for m in movers):
                    prob = "other-paths-changed"
                elif trel not in after or not any(
                        m in changed and m not in after for m in movers):
                    prob = "name-not-changed"
                else:
                    try:
                        with open(target, "rb") as f:
                            if f.read() != raw:
                                prob = "bytes-changed"
                    except OSError:
                        prob = "bytes-changed"
            res.outcomes[prob or "ok"] += 1
            if prob:
                akind = "symlink" if alias.startswith("sym") else \
                    "hardlink" if alias == "hard" else "plain"
                coarse = (f"{akind}-alias-of-properly-named"
                          if place == "proper" else
                          f"{akind}-alias-free" if occ == "none" else
                          f"taken-by-{occ}")
                res.violation(
                    f"C18|rename|{prob}|{coarse}",
                    {"kind": "rename", "variant": variant,
                     "version": g["version"], "seed": seed, "tier": tier},
                    {"changed": changed, "error": err,
                     "before": entries(before, changed, sb),
                     "after": entries(after, changed, sb)})

    # ------------------------------------------------------------------
    # process environment (mc/envrun.py)
    def penv_ops(self, tier):
        """The sub-catalogue run in every process environment: rename (name
        of the torrent ASCII / not, proper name free / taken by another file
        / already carried) and the read-only commands on a torrent whose name
        and one of whose files are not ASCII."""
        ops = []
        for ver in (("v1", "hy") if tier != "thorough"
                    else ("v1", "v2", "hy")):
            for nm in PENV_NAMES:
                for occ in ("free", "taken", "already-correct"):
                    ops.append({"op": "rename", "version": ver, "name": nm,
                                "occ": occ})
        for ver in ("v1", "v2", "hy"):
            for nm in PENV_NAMES:
                for cmd in ("info", "magnet", "recheck", "recheck-parent"):
                    ops.append({"op": cmd, "version": ver, "name": nm})
        return ops

    @staticmethod
    def _penv_meta(seed, ver, name, tree):
        m = model.ref_v1(name, tree, P0) if ver == "v1" else (
            model.ref_v2(name, tree, P0, 16384) if ver == "v2"
            else model.ref_hybrid(name, tree, P0, 16384))
        m[b"announce"] = b"http://t/a"
        m[b"url-list"] = [b"http://w/"]
        return bencode.encode(m)

    def run_penv(self, g, res, only=None):
        """One child interpreter per environment runs every operation of
        penv_ops through the command line entry point, each in a sandbox of
        its own that the parent builds beforehand and snapshots before and
        after (the child only runs the commands).  Read-only commands: the
        sandbox is name-for-name and byte-for-byte what it was, whatever the
        command answered.  rename with the proper name taken (by another
        file / by the metafile itself): nothing changes (and, when another
        file holds the name, an error is raised).  rename with the proper
        name free: either exactly the metafile's entry changes its name
        (same bytes, nothing else touched) or - outside the baseline
        environment - the command refuses and nothing changes."""
        import json
        import shutil
        seed, env, tier = g["seed"], g["env"], g.get("tier", "quick")
        top = world.fresh_dir("c18e_")
        cwd = os.path.join(top, "cwd")
        os.mkdir(cwd)
        world.write_file(os.path.join(cwd, "unrelated.txt"), b"keep me")
        ops = self.penv_ops(tier)
        runs, plan = [], []
        for i, op in enumerate(ops):
            sb = os.path.join(top, f"op{i}")
            os.mkdir(sb)
            name = op["name"]
            files = [(("a",), world.content(seed, 0, 20000)),
                     (("d", "b"), world.content(seed, 1, P0 + 1)),
                     (("d", "été"), world.content(seed, 2, 7))]
            if op["op"] == "rename":
                raw = self._penv_meta(seed, op["version"], name,
                                      {(): files[0][1]})
                target = os.path.join(sb, name + ".torrent")
                src = os.path.join(sb, "incoming.torrent")
                if op["occ"] == "already-correct":
                    src = target
                elif op["occ"] == "taken":
                    world.write_file(target, b"someone else's older file")
                world.write_file(src, raw)
                world.write_file(os.path.join(sb, "unrelated.txt"), b"keep")
                argv = ["rename", src]
                aux = (src, target, raw)
            else:
                raw = self._penv_meta(seed, op["version"], name, dict(files))
                mpath = os.path.join(sb, "m.torrent")
                world.write_file(mpath, raw)
                root = world.materialize(files, os.path.join(sb, "data"),
                                         name=name)
                argv = {"info": ["info", mpath],
                        "magnet": ["magnet", mpath],
                        "recheck": ["recheck", mpath, root],
                        "recheck-parent": ["recheck", mpath,
                                           os.path.dirname(root)]}[op["op"]]
                aux = None
            runs.append([str(i), argv])
            plan.append((i, op, sb, aux, world.snapshot(sb)))
        cwd_before = world.snapshot(cwd)
        blob = json.dumps({"runs": runs})
        rep = envrun.run(env, _PENV_BODY.format(blob=blob), cwd=cwd)
        res.extra["child_interpreters"] += 1
        if not rep["report"] or not isinstance(rep["obs"], dict) or \
                len(rep["obs"]) != len(runs):
            res.outcomes[f"penv:{env}:child-did-not-report"] += 1
            if env == "default":
                raise core.InfraError("penv child did not report: " +
                                      str(rep)[:600])
            rep = {"obs": {str(i): ["child-died", None]
                           for i in range(len(runs))}}
        for i, op, sb, aux, before in plan:
            st, msg = rep["obs"].get(str(i), ["not-run", None])
            err = None if st == "ok" else st
            res.extra["penv_commands_completed" if st == "ok"
                      else "penv_commands_refused"] += 1
            after = world.snapshot(sb)
            changed = diff(before, after)
            res.states += 1
            res.transitions += 1
            res.evals += 1
            res.validated += 1
            prob = None
            strict = env == "default"
            if op["op"] != "rename":
                if changed:
                    prob = "sandbox-changed"
            else:
                src, target, raw = aux
                srel, trel = os.path.relpath(src, sb), \
                    os.path.relpath(target, sb)
                if op["occ"] != "free":
                    if changed:
                        prob = "clobbered-or-changed-existing"
                    elif not err and op["occ"] == "taken":
                        prob = "no-error-when-target-taken"
                elif not changed:
                    if err and strict:
                        prob = "rename-raised:" + err
                    elif not err and strict:
                        prob = "name-not-changed"
                    else:
                        res.outcomes[f"penv:{env}:rename-refused:"
                                     f"{err}"] += 1
                else:
                    new = [c for c in changed if c not in before]
                    if [c for c in changed if c in before and c != srel]:
                        prob = "other-paths-changed"
                    elif srel in after or len(new) != 1 or \
                            after[new[0]][0] != "f" or (
                                strict and new != [trel]):
                        prob = "name-not-changed"
                    else:
                        with open(os.path.join(sb, new[0]), "rb") as f:
                            if f.read() != raw:
                                prob = "bytes-changed"
                        if not prob and err and strict:
                            prob = "rename-raised:" + err
            res.outcomes[prob or "ok"] += 1
            if prob and (only is None or all(
                    only.get(k) == op.get(k)
                    for k in ("op", "version", "name", "occ"))):
                cls = "ascii-name" if op["name"].isascii() else \
                    "non-ascii-name"
                word = "rename" if op["op"] == "rename" else \
                    "cli:" + op["op"]
                res.violation(
                    f"C18|{word}|{prob}|"
                    f"{op.get('occ', 'intact')}|{cls}|penv:{env}",
                    dict(op, kind="penv", env=env, seed=seed, tier=tier),
                    {"changed": changed[:6], "error": err, "message": msg,
                     "before": entries(before, changed[:6], sb),
                     "after": entries(after, changed[:6], sb)})
        cwd_changed = diff(cwd_before, world.snapshot(cwd)) \
            if os.path.isdir(cwd) else ["."]
        if cwd_changed and (only is None or only.get("op") == "cwd"):
            res.violation(
                f"C18|cli|working-directory-changed|penv:{env}",
                {"kind": "penv", "env": env, "seed": seed, "tier": tier,
                 "op": "cwd"}, {"changed": cwd_changed[:6]})
        shutil.rmtree(top, ignore_errors=True)
        res.sample({"kind": "penv", "env": env, "operations": len(ops)})

    def run_group(self, g):
        res = core.Result()
        if g["kind"] == "penv":
            self.run_penv(g, res)
            return res
        if g["kind"] == "readonly":
            self.run_readonly(g, res)
        elif g["kind"] == "create":
            self.run_create(g, res)
        else:
            self.run_rename(g, res)
        return res

    def replay(self, case):
        if case["kind"] == "penv":
            res = core.Result()
            self.run_penv({"env": case["env"], "seed": case["seed"],
                           "tier": case.get("tier", "quick")}, res,
                          only=case)
            return [{"sig": v["sig"], "detail": v["detail"]}
                    for v in res.violations]
        res = core.Result()
        g = {"version": case["version"], "seed": case["seed"],
             "pstate": case.get("pstate", "intact"),
             "tier": case.get("tier", "quick"),
             "kind": "create" if case["kind"] == "create-single"
             else case["kind"]}
        self.run_group(g)
        r = self.run_group(g)
        out = []
        for v in r.violations:
            c = v["case"]
            if case["kind"] == "readonly" and c.get("args") != case.get("args"):
                continue
            if case["kind"] == "create" and any(
                    c.get(k) != case.get(k)
                    for k in ("head", "out", "prog", "magnet", "opts", "by",
                              "fail")):
                continue
            if case["kind"] == "rename" and c.get("variant") != \
                    case.get("variant"):
                continue
            if case["kind"] == "create-single" and (
                    c.get("kind") != "create-single" or any(
                        c.get(k) != case.get(k) for k in ("pname", "mode"))):
                continue
            if case["kind"] == "create" and c.get("kind") != "create":
                continue
            out.append({"sig": v["sig"], "detail": v["detail"]})
        return out


def make(pid):
    return ReadOnlyCheck()
