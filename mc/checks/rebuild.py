"""C13, C14, C19 — rebuild.  E1 worlds x metafile families x scatterings x
decoys x listing orders (C13); destination pre-states and rebuild histories
(C14, E3); hostile metafiles (C19).  Oracles: reference layout + snapshots +
audit monitor."""
import contextlib
import itertools
import os
import resource
import shutil

from mc import core, e1, e2, fsshim, seams, tf, world
from mc.ref import bencode, model

REAL_B = e1.REAL_B
NAME = world.ROOT_NAME

FAMILIES = ["own-v1", "own-v2", "own-hybrid", "ref-V1", "ref-V2",
            "ref-HY-notrail", "own-v1-aligned", "ref-V1-bep47",
            "ref-V1-bep47x2"]
OWN = {"own-v1": "TorrentFile", "own-v2": "Assembler2",
       "own-hybrid": "Assembler3", "own-v1-aligned": "TorrentFile"}
# families whose directory metafiles carry BEP 47 padding entries
PADDED = ["own-v1-aligned", "ref-V1-bep47", "ref-V1-bep47x2", "own-hybrid",
          "ref-HY-notrail"]
SCATTER = ["orig", "flat", "deep", "split"]
DECOY = ["none", "decoy", "unrelated", "partial"]


def make_meta(fam, tree, P, B, srcroot, mpath, name=NAME):
    if fam in OWN:
        tf.reset_process_state()
        kw = {"align": True} if fam == "own-v1-aligned" else {}
        return tf.create(OWN[fam], srcroot, mpath, P, **kw)
    if fam == "ref-V1":
        m = model.ref_v1(name, tree, P)
    elif fam == "ref-V1-bep47":
        m = model.ref_v1(name, tree, P, "bep47")
    elif fam == "ref-V1-bep47x2":
        m = model.ref_v1(name, tree, P, "bep47x2")
    elif fam == "ref-V2":
        m = model.ref_v2(name, tree, P, B)
    else:
        m = model.ref_hybrid(name, tree, P, B, trail=False)
    raw = bencode.encode(m)
    with open(mpath, "wb") as f:
        f.write(raw)
    return raw


def scatter_files(files, sb, mode, single_name=NAME, tag=""):
    """Place intact copies of the files in search directories; returns the
    list of search dirs and {index: path}."""
    s1 = os.path.join(sb, "search1" + tag)
    s2 = os.path.join(sb, "search2" + tag)
    os.makedirs(s1, exist_ok=True)
    placed = {}
    dirs = [s1]
    seen = {}
    for i, (rel, data) in enumerate(files):
        base = rel[-1] if rel else single_name
        if mode == "dedup":
            # one copy serves every entry with this name and these bytes
            if (base, data) in seen:
                placed[i] = seen[(base, data)]
                continue
            p = os.path.join(s1, f"k{i}", base)
            seen[(base, data)] = p
        elif mode == "orig":
            p = os.path.join(s1, single_name, *rel) if rel else \
                os.path.join(s1, single_name)
        elif mode == "flat":
            p = os.path.join(s1, base)
            if os.path.exists(p):
                p = os.path.join(s1, f"dup{i}", base)
        elif mode == "deep":
            p = os.path.join(s1, f"k{i}", "j", base)
        else:
            os.makedirs(s2, exist_ok=True)
            if s2 not in dirs:
                dirs.append(s2)
            p = os.path.join(s1 if i % 2 == 0 else s2, f"q{i}", base)
        world.write_file(p, data)
        placed[i] = p
    return dirs, placed


def _search_root(p):
    """The directory that holds the search directories of a placed file."""
    parts = p.split(os.sep)
    for k in range(len(parts) - 1, 0, -1):
        if parts[k].startswith("search"):
            return os.sep.join(parts[:k])
    raise ValueError(p)


def add_decoys(files, placed, kind, seed):
    """decoy: for every non-empty file a same-name same-size file with entirely
    different bytes, one in a directory that sorts before and one after the
    true copy's directory.  unrelated: other names / sizes."""
    out = []
    for i, (rel, data) in enumerate(files):
        p = placed[i]
        d, base = os.path.dirname(p), os.path.basename(p)
        if kind in ("decoy", "decoy-lo", "decoy-hi") and data:
            # -lo / -hi: on one side only, so that enumeration order and
            # path order of original and decoy can disagree
            fake = bytes((b ^ 0x5A) or 0x11 for b in data)
            for sub in {"decoy": ("!first", "~last"), "decoy-lo": ("!first",),
                        "decoy-hi": ("~last",)}[kind]:
                q = os.path.join(d, sub, base)
                world.write_file(q, fake)
                out.append(q)
        elif kind == "decoy-dir0" and data:
            # in a search directory of its own that is listed last but whose
            # path sorts first
            fake = bytes((b ^ 0x5A) or 0x11 for b in data)
            s0 = os.path.join(_search_root(p), "search0")
            q = os.path.join(s0, base)
            if os.path.exists(q):
                q = os.path.join(s0, f"n{i}", base)
            world.write_file(q, fake)
            out.append(q)
        elif kind == "partial" and len(data) >= 2:
            # same name and size, identical except for the last byte: verifies
            # in every piece but the file's last one
            fake = data[:-1] + bytes([(data[-1] ^ 0x3C) or 0x11])
            for sub in ("!first", "~last"):
                q = os.path.join(d, sub, base)
                world.write_file(q, fake)
                out.append(q)
        elif kind == "longer":
            # same name, the true bytes followed by a tail: verifies as a
            # prefix but has the wrong length
            for sub in ("!first", "~last"):
                q = os.path.join(d, sub, base)
                world.write_file(q, data + b"tail")
                out.append(q)
        elif kind == "unrelated":
            world.write_file(os.path.join(d, "unrelated_" + base),
                             data + b"x")
            world.write_file(os.path.join(d, "zz", base), data + b"longer")
    return out


def pad_entries(meta):
    """{relative path under dest (tuple of str): length} of the BEP 47 padding
    entries in the metafile's v1 file list (v1 and hybrid metafiles)."""
    info = meta[b"info"]
    name = info[b"name"].decode()
    out = {}
    for f in info.get(b"files", []):
        if b"p" in f.get(b"attr", b""):
            out[(name,) + tuple(c.decode() for c in f[b"path"])] = \
                f[b"length"]
    return out


def add_pad_decoys(metas, search_dir, seed):
    """For every padding entry of the metafiles: files named like the entry's
    last path element, of exactly the recorded length, without a single zero
    byte (padding stands for zeros, so none of their bytes verify) - one
    below a directory called like the entry's parent, listed first, and one
    in a directory listed last.  Returns the planted bytes."""
    planted = set()
    for meta in metas:
        for rel, length in sorted(pad_entries(meta).items()):
            if not length:
                continue
            for k, sub in enumerate((("!pads",) + rel[1:-1], ("~pads",))):
                q = os.path.join(search_dir, *sub, rel[-1])
                if os.path.exists(q):
                    continue
                body = world.content(seed, f"pad{k}:{rel[-1]}", length)
                world.write_file(q, body)
                planted.add(body)
    return planted


def wclass(w):
    """Coarse input class of a world for signatures."""
    c = e1.world_class(w)
    if len(w["sizes"]) >= 100:
        c += "+many-files"
    if w["shape"].startswith("LN") or len(w.get("rootname", "").encode()) > 200:
        c += "+name-near-NAME_MAX"
    return c


def written_probs(before, after, assigned, padpaths, srcfiles, decoy_bytes):
    """C14, third clause: everything written to the destination (trees
    before / after as {rel: bytes}) is a copy of a same-named candidate of
    the recorded length at a path the metafile assigns; nothing is removed."""
    probs = []
    for rel, data in after.items():
        if before.get(rel) == data:
            continue
        if rel in padpaths and rel not in assigned:
            # whether padding is materialised (as zeros) is not judged; only
            # that a non-verifying decoy is not placed
            if data in decoy_bytes:
                probs.append(("all-different-decoy-placed", list(rel)))
            continue
        if rel not in assigned:
            probs.append(("wrote-at-unassigned-path", list(rel)))
            continue
        if len(data) != assigned[rel]:
            probs.append(("written-file-has-wrong-length", list(rel)))
        if data not in srcfiles.get(rel[-1], []):
            probs.append(("written-file-not-a-copy-of-a-candidate",
                          list(rel)))
        if data in decoy_bytes:
            probs.append(("all-different-decoy-placed", list(rel)))
    for rel in before:
        if rel not in after:
            probs.append(("destination-file-removed", list(rel)))
    return probs


def expected_tree(meta):
    """{relative path under dest (tuple of str): length} the metafile assigns."""
    ver, single, layout = model.payload_layout(meta)
    name = meta[b"info"][b"name"].decode()
    out = {}
    for path, length, pad, _leaf in layout:
        if pad:
            continue
        rel = (name,) + tuple(c.decode() for c in path)
        out[rel] = length
    return out


def host_index(searches, names):
    """The index a host program hands to Metadata.rebuild(filemap, dest): file
    name -> [(path, size), ...] for every file below the search directories
    that is called like a file of the torrent (the documented shape; built by
    the harness with its own walk, not by the library's helper)."""
    out = {}
    for root in searches:
        root = os.fspath(root)
        if os.path.isfile(root):
            if os.path.basename(root) in names:
                out.setdefault(os.path.basename(root), []).append(
                    (root, os.path.getsize(root)))
            continue
        for dirpath, dirnames, filenames in os.walk(root):
            dirnames.sort()
            for n in sorted(filenames):
                p = os.path.join(dirpath, n)
                if n in names and os.path.isfile(p):
                    out.setdefault(n, []).append((p, os.path.getsize(p)))
    return out


# the ways a rebuild is driven (DRIVERS[0] is the one every catalogue uses):
#   lib      Assembler(metafiles, contents, dest).assemble_torrents()
#   cli      execute(["rebuild", "-m", .., "-c", .., "-d", ..])
#   command  commands.rebuild(Namespace(metafiles=, contents=, destination=))
#   hook     a = Assembler(..); for m in a.metafiles: a.rebuild(m)
#   metadata Metadata(metafile).rebuild(index built by the host, dest)
DRIVERS = ["lib", "cli", "command", "hook", "metadata"]


def run_rebuild(metas, searches, dest, route="lib"):
    try:
        if route == "lib":
            with tf.quiet():
                a = tf.rebuild.Assembler(list(metas), list(searches), dest)
                return ("ok", a.assemble_torrents())
        if route == "hook":
            # the per-metafile entry point of the Assembler (what a host does
            # to report progress per torrent or to rebuild a selection)
            with tf.quiet():
                a = tf.rebuild.Assembler(list(metas), list(searches), dest)
                for m in a.metafiles:
                    a.rebuild(m)
                return ("ok", None)
        if route == "metadata":
            # Metadata driven directly with an index made by the host
            with tf.quiet():
                for mp in metas:
                    if os.path.isdir(mp):
                        raise ValueError("metadata driver takes files")
                    m = tf.rebuild.Metadata(mp)
                    m.rebuild(host_index(searches, set(m.filenames)), dest)
                return ("ok", None)
        if route == "command":
            import argparse
            ns = argparse.Namespace(metafiles=list(metas),
                                    contents=list(searches), destination=dest)
            with tf.quiet():
                return ("ok", tf.commands.rebuild(ns))
        argv = ["rebuild", "-m"] + list(metas) + ["-c"] + list(searches) + \
            ["-d", dest]
        return ("ok", tf.execute(argv))
    except BaseException as e:  # noqa
        return ("raised:" + type(e).__name__, str(e)[:120])


# ------------------------------------------------------------ C19 observers
def snap_outside(root, skip):
    """world.snapshot(root) without the directory whose real path is `skip`
    (the destination) and everything below it.  Symbolic links are recorded
    as links and never followed."""
    root = os.path.realpath(root)
    out = {}
    for dirpath, dirnames, filenames in os.walk(root):
        dirnames.sort()
        keep = []
        for n in dirnames:
            p = os.path.join(dirpath, n)
            rel = os.path.relpath(p, root)
            if os.path.islink(p):
                out[rel] = ("l", 0, os.readlink(p), 0)
                continue
            if p == skip:
                continue
            out[rel] = ("d", 0, "", os.stat(p).st_mode & 0o7777)
            keep.append(n)
        dirnames[:] = keep
        for n in sorted(filenames):
            p = os.path.join(dirpath, n)
            out[os.path.relpath(p, root)] = world._entry(p, False)
    return out


def events_outside(events, rd):
    """Low-level mutating audit events whose object lies outside the real
    destination path rd.  mkdir / rmdir / remove / rename / ... act on the
    directory entry itself (the final path element is not followed); an open
    for writing follows a symbolic link in the final element, so the file it
    reaches is what counts."""
    bad = []
    for ev in events:
        if ev[0] not in seams.LOWLEVEL:
            continue
        for p in ev[1:]:
            if ev[0] in ("open-w", "open-create"):
                rp = os.path.realpath(p)
            else:
                rp = os.path.join(os.path.realpath(os.path.dirname(p)),
                                  os.path.basename(p))
            if not (rp == rd or rp.startswith(rd + os.sep)):
                bad.append(list(ev))
                break
    return bad


@contextlib.contextmanager
def fsize_limit(nbytes):
    """The process' file size limit (RLIMIT_FSIZE, soft) lowered for the
    duration of the block: a write beyond it is refused by the operating
    system with EFBIG (CPython ignores SIGXFSZ).  Nothing of the harness writes
    a regular file inside the block."""
    if nbytes is None:
        yield
        return
    old = resource.getrlimit(resource.RLIMIT_FSIZE)
    resource.setrlimit(resource.RLIMIT_FSIZE, (nbytes, old[1]))
    try:
        yield
    finally:
        resource.setrlimit(resource.RLIMIT_FSIZE, old)


@contextlib.contextmanager
def working_dir(path):
    if path is None:
        yield
        return
    old = os.getcwd()
    os.chdir(path)
    try:
        yield
    finally:
        os.chdir(old)


# destination spellings (the directory is always <case>/outer/mid/dest)
ENV_SPELL = ["canon", "slash", "dslash", "dot", "dotdot", "link",
             "link-final", "rel", "rel-dot", "rel-up", "cwd"]
# what else there is in and around the destination
ENV_SURROUND = ["empty", "dest-empty", "populated", "absent"]
ENV_META = ["dir", "dir2", "dotname", "empty", "single"]
# how the operating system refuses the copy ("none": it does not)
ENV_FAULT = ["none", "long-element", "long-path-mkdir", "long-path-open",
             "fsize-0", "fsize-4096"]
PATH_MAX = os.pathconf("/", "PC_PATH_MAX") if hasattr(os, "pathconf") else 4096

# symbolic links planted in the destination before the rebuild
LINK_KINDS = ["dir-out", "file-out-short", "file-out-long", "dangling-out",
              "dir-up", "dir-out-2hop", "dir-in", "loop"]
# what sits at the very path an entry is to be written to
TARGET_KINDS = ["dir+link-file", "dir+link-dangling", "dir+link-dir",
                "link-file-short", "link-file-long", "link-dangling",
                "link-dir"]


# ------------------------------------------------------- library surface
# how a host program hands its arguments over / drives the classes (C13)
FORMS = ["tuple", "generator", "pathlib", "contents-overwritten",
         "contents-cleared", "metafiles-cleared", "hook", "metadata",
         "command", "rerun-emptied"]
FORM_WORLDS = [("D3", [32768 + 1, 0, 7]), ("D2n", [2 * 32768, 32768]),
               ("S1", [32768 + 5])]
# several Assembler objects alive at once: pairs of families (every
# interleaving of construct / run) and one triple (all 90 interleavings)
LIVE_PAIRS = [["own-v1", "own-v2"], ["own-v2", "own-hybrid"],
              ["own-hybrid", "own-v1"], ["own-v1", "own-v1"],
              ["ref-V2", "ref-V1"]]
LIVE_TRIPLE = ["own-v1", "own-v2", "own-hybrid"]
LIVE_LISTS = ["own", "scratch"]


def interleavings(n):
    """Every order of the events c0..c(n-1), r0..r(n-1) in which each
    Assembler is constructed (cK) before it is run (rK)."""
    out = []

    def rec(seq, made, ran):
        if len(seq) == 2 * n:
            out.append(list(seq))
            return
        for k in range(n):
            if k not in made:
                rec(seq + [f"c{k}"], made | {k}, ran)
            elif k not in ran:
                rec(seq + [f"r{k}"], made, ran | {k})
    rec([], frozenset(), frozenset())
    return out


# ------------------------------------------------------------ path names
# directories whose NAME reads like something a shell would expand; the
# process environment has HOME and VERIF_PN set (to places inside the case
# directory), so that a rewritten path is observable and stays in the sandbox
PATH_NAMES = ["plain", "$HOME", "${HOME}", "~", "pre_$VERIF_PN",
              "${VERIF_PN}", "%TEMP%", "~nosuchuser0"]
PATH_ROLES = ["dest", "search", "metafile", "metadir"]
PATH_SPELL = ["abs", "rel"]
PN_VALUE = "val"
# the two names used under the process-environment axis (absolute spellings
# only: HOME is whatever the environment says there)
PATH_NAMES_ENV = ["${VERIF_PN}", "$HOME"]


def pname_class(pname):
    if "$" in pname:
        return "names-an-environment-variable"
    if pname.startswith("~"):
        return "leading-tilde"
    return "plain"


class RebuildCheck:
    def __init__(self, pid):
        self.id = pid
        self.assumptions = {
            "C13": [
                "intact copies of every file are present under the same file "
                "names; scatterings: original layout, flat, two levels deep, "
                "split over two search directories; decoys: same name and "
                "size with entirely different bytes in directories listed "
                "before and after the true copy (both listing orders), "
                "unrelated files (other names; same name but longer), partial "
                "decoys (same name and size, only the last byte differs); at "
                "real scale also files named and sized like the BEP 47 padding "
                "entries of the metafile (no zero byte) in directories listed "
                "first and last",
                "file names of 241, 242, 250, 251 and 255 bytes (NAME_MAX = "
                "255), ASCII and multi-byte UTF-8 of the same byte lengths, at "
                "the top level, in a sub-directory and as the name of a "
                "single-file torrent; every family; original / deep / split "
                "scattering; with and without same-named decoys",
                "many small files: 1100 files in one directory with sizes 1 "
                "and cyclic (1,0,2,3) at 32 KiB pieces, so that one piece "
                "spans more than a thousand files (thorough: further size "
                "patterns, 300 and 40 files, unrelated neighbours); no "
                "same-named decoys there (the v1 matcher tries every "
                "combination of candidates within a piece)",
                "metafile families: own v1 / v1 --align / v2 / hybrid, "
                "reference V1 / V1 with BEP 47 pad files / V2 / hybrid",
                "'full directory structure' includes empty files; the count "
                "is judged as <= torrent files present in an initially empty "
                "destination",
                "a v2-only directory torrent that contains only a file named "
                "like the torrent is excluded (ambiguous with single-file)",
                "scaled model S = same code with BLOCK_SIZE rebound; every S "
                "disagreement is reported only after its R image fails too",
                "library surface (real scale, every family, three worlds): "
                "the arguments handed over as tuples, one-shot iterators, "
                "pathlib paths; the caller's own `contents` list overwritten "
                "(first element replaced by a directory of same-named, "
                "same-sized, all-different files) or cleared, the `metafiles` "
                "list cleared, after the constructor returned and before "
                "assemble_torrents(); the drivers Assembler.rebuild(m) per "
                "metafile, Metadata(metafile).rebuild(index made by the "
                "harness' own walk, dest), commands.rebuild(Namespace); a kept "
                "Assembler run again after the host emptied the destination. "
                "Reading: the directories handed to the constructor held the "
                "intact copies, so everything must be restored; a form that "
                "is refused (raises and leaves the destination empty) is not "
                "judged, one that is accepted is; the count "
                "returned by the second run of a kept Assembler is judged "
                "against its (again empty) destination",
                "several Assembler objects alive at once: every interleaving "
                "of [construct k, run k] that constructs before it runs, for "
                "five pairs of families (6 orders each) and one triple v1 / "
                "v2 / hybrid (90 orders), each Assembler with a torrent, "
                "search directory (intact copies + same-named decoys) and "
                "empty destination of its own; x {every Assembler is given a "
                "list of its own, the host re-uses one scratch list that it "
                "clears and refills before each construction}; every "
                "destination must be complete and every returned count <= the "
                "files present in that Assembler's destination when it "
                "returns (under-counting is not judged)",
                "path names: the destination / a search directory / the "
                "metafile / a directory of metafiles is a directory literally "
                "called '$HOME', '${HOME}', '~', 'pre_$VERIF_PN', "
                "'${VERIF_PN}', '%TEMP%', '~nosuchuser0' (and 'plain' as the "
                "control), HOME and VERIF_PN set in the process environment to "
                "places inside the case directory; given by absolute path and "
                "relative to the working directory; library and CLI; v1 / v2 "
                "/ hybrid.  '~user' of an existing account is left out (its "
                "expansion cannot be kept inside the sandbox)",
            ],
            "C14": [
                "destination pre-states per target path: absent, correct, "
                "same size wrong bytes, shorter, longer, plus an unrelated "
                "extra file; histories of up to 3 rebuilds (same metafile "
                "again, a second metafile sharing file names) into one "
                "destination",
                "pre-state 'directory at the target path, holding an unrelated "
                "file' (quick: next to absent-only or correct-only neighbours; "
                "thorough: full product with the other pre-states)",
                "padded families (v1 --align, reference BEP 47, hybrids): files "
                "named like a padding entry's last path element, of exactly "
                "the pad length, without a zero byte, in directories listed "
                "first and last, both listing orders; whether padding is "
                "materialised as zeros is not judged, only that such a decoy "
                "is never placed",
                "the metafile stored inside the destination: at the very path "
                "it assigns to a payload file of its own name (single-file "
                "torrent y.torrent at dest/y.torrent; pack/m.torrent at "
                "dest/pack/m.torrent), payload larger / smaller than the "
                "metafile, and elsewhere in the destination; history of two "
                "rebuilds; the metafile must keep its bytes",
                "a decoy is 'never placed' only if it differs from the true "
                "file in every byte; partially verifying decoys are not judged; "
                "a same-named candidate that is the true file plus a tail must "
                "never be written (wrong length); decoys are tried in both "
                "listing orders",
                "destination is disjoint from search directories and metafiles",
                "the metafile-inside-the-destination worlds also through the "
                "library's other entry points: history [Assembler.rebuild(m) "
                "per metafile, Metadata(metafile).rebuild(index made by the "
                "harness, dest)] (thorough: both orders, and "
                "commands.rebuild(Namespace) twice)",
                "path names: the destination / a search directory / the "
                "metafile / a directory of metafiles is a directory literally "
                "called '$HOME', '${HOME}', '~', 'pre_$VERIF_PN', "
                "'${VERIF_PN}', '%TEMP%', '~nosuchuser0', 'plain', with HOME "
                "and VERIF_PN set in the process environment to places inside "
                "the case directory; absolute and relative spelling; library "
                "and CLI; v1 / v2 / hybrid.  Reading: 'the path the metafile "
                "assigns' lies below the directory that was given, spelled as "
                "given; a regular file that appears or changes anywhere else "
                "in the case directory is written at an unassigned path "
                "(directories made elsewhere are C19's subject)",
                "process-environment axis: the rebuild (library) of that world "
                "with the destination / the search directory called "
                "'${VERIF_PN}' and '$HOME' (absolute spelling), in a child "
                "interpreter under every member of mc.envrun.ENVS (terminal "
                "widths, -O / PYTHONOPTIMIZE=2, ASCII file system encoding, "
                "POSIX locale, stdout closed / full / a file / ASCII-only, "
                "removed working directory, -W error, TORRENTFILE_DEBUG, low "
                "recursion limit, 64 file descriptors, umasks, no HOME, far "
                "time zone, small io buffer) x v1 / v2 / hybrid; one file "
                "name is not ASCII.  Reading: in every environment rebuild "
                "either works or refuses (raises / the child dies); a refusal "
                "is never a violation; whatever it wrote is judged by the "
                "same snapshots (sources unchanged, written files are copies "
                "of candidates at assigned paths below the given destination)",
            ],
            "C19": [
                "hostile name / path elements: every sequence of length <= 2 "
                "(+ final file name) over {d, '..', '.', '', absolute path "
                "inside the sandbox, 'a/../../b', '../..', a sibling directory "
                "whose name extends the destination's name} and a 12-deep '..' "
                "chain, a path that leaves the destination, names a new directory "
                "outside and comes back; each also with a zero-length file and "
                "with a shorter regular file planted where the hostile path "
                "points; plus benign metafiles "
                "into a destination that already contains a symlink leading "
                "outside; destination 20 levels below the sandbox root (cases with more than 20 '..' in total are skipped) so that "
                "escapes stay observable inside the sandbox",
                "raising, skipping or sanitising are all acceptable; only "
                "effects outside the destination are judged (snapshot + audit "
                "hook over all paths)",
                "destinations spelled relative to the working directory: "
                "histories of two rebuilds with a chdir in between, the second "
                "metafile aiming at the first destination (library and CLI)",
                "the operating system refuses the copy of a verified candidate "
                "of a metafile that stays inside the destination: a directory "
                "element of 300 bytes (ENAMETOOLONG), a directory path longer "
                "than PATH_MAX, a file path longer than PATH_MAX below a "
                "directory that can still be made (the candidate of the same "
                "name sits at a short path), the process' file size limit "
                "(RLIMIT_FSIZE 0 and 4096 -> EFBIG), and no refusal as the "
                "control; x metafile kind {one file two levels down, a refused "
                "entry followed by a harmless one, name '.' with an 'a/../b' "
                "element, zero-length file, single-file torrent} x destination "
                "spelling {its real path, trailing '/', '//' inside, '/./', "
                "'x/../x', through a symlinked directory, a symlink to the "
                "destination itself, relative to the working directory as "
                "'dest', './dest', '../outer/mid/dest', and '.' from inside} x "
                "surroundings {destination and its two ancestors otherwise "
                "empty, destination empty with populated ancestors, everything "
                "populated, destination not yet existing in an empty parent} x "
                "{library, CLI} (quick: CLI only with empty surroundings)",
                "the same worlds with the refusal injected by the FS-operation "
                "shim: every mkdir / open for writing / raw write / chmod of "
                "the rebuild answers ENOSPC, EACCES, EROFS, EIO or writes "
                "partially, one deviation per run (quick: 3 metafile kinds x "
                "5 spellings x 2 surroundings, library)",
                "symbolic links planted in the destination at dest/L, "
                "dest/top/L and dest/top/d/L, leading to {a directory outside, "
                "a shorter file outside, a longer file outside, a missing path "
                "outside (with and without its parent), '..', a second link "
                "inside that leads outside, a directory inside, itself}; "
                "metafile name in {top, L, '.'} x path elements of length <= 2 "
                "over {d, L, '..'} x file name in {f, L}, single-file "
                "torrents named L and f, each with a full and a zero-length "
                "file (thorough: also '' and '.' as name / element, CLI); "
                "writing through a link that leads outside is writing outside",
                "something already sits at the very path an entry is written "
                "to (benign and dot-segment spellings that stay inside the "
                "destination): a directory holding a symlink named like the "
                "candidate, or a symlink, leading to a shorter / longer file, "
                "a missing path or a directory outside",
                "an open for writing is attributed to the file it reaches (a "
                "symlink in the final path element is followed); attempted "
                "low-level mutations outside the destination count even when "
                "the operating system rejects them; the destination directory "
                "itself is not judged; hard links are not planted",
                "drivers: the hostile catalogue runs through "
                "Assembler(...).assemble_torrents(); the part of it with path "
                "element sequences of length <= 1 (every name x element x "
                "final element x {full, zero-length, single-file} x {victim "
                "file planted or not}, after a benign entry, symlink in the "
                "destination) also through the command line (there without "
                "the planted victim files), "
                "Assembler.rebuild(m) called per metafile by the host, and "
                "Metadata(metafile).rebuild(index, dest) called directly with "
                "an index {name: [(path, size)]} made by the harness' own "
                "walk (thorough: commands.rebuild(Namespace) too, and the "
                "full catalogue through every driver)",
                "path names: the destination (also a search directory, the "
                "metafile, a directory of metafiles) is a directory literally "
                "called '$HOME', '${HOME}', '~', 'pre_$VERIF_PN', "
                "'${VERIF_PN}', '%TEMP%', '~nosuchuser0', 'plain', with HOME "
                "and VERIF_PN set in the process environment to places inside "
                "the case directory; absolute and relative spelling; library "
                "and CLI; benign metafile; 'the destination it was given' is "
                "the directory of that name, whatever the environment holds",
            ],
        }[pid]
        self.rule = {
            "C13": "nested product scale x P x shape x sizes x family x "
                   "scattering x decoy x listing order (+ batches x listing "
                   "orders of the metafile directory; + name length x "
                   "encoding x position of the long name x family x "
                   "scattering x decoy; + many-files worlds x family x "
                   "scattering; + family x world x library form (argument "
                   "types, caller's lists mutated after construction, "
                   "drivers, kept object run again); + families x every "
                   "interleaving of construct / run of two and three live "
                   "Assemblers x {own lists, one re-used scratch list}; + "
                   "version x role of the specially named directory x name x "
                   "spelling x route); transition = one "
                   "Assembler.assemble_torrents() on the real code; oracle = "
                   "destination equals the reference layout byte for byte",
            "C14": "explicit-state search over rebuild histories from every "
                   "destination pre-state vector (x decoy kind incl. pad-named "
                   "decoys x listing order; + metafile location inside the "
                   "destination x layout x payload size x driver history; + "
                   "version x role of the specially named directory x name x "
                   "spelling x route; + version x process environment x name "
                   "x role, in child interpreters); state = canonical "
                   "destination + search trees; invariants evaluated on every "
                   "transition (snapshots + audit hook)",
            "C19": "full product of hostile names x path element sequences x "
                   "version; + version x driver x hostile names x path "
                   "element sequences of length <= 1; + version x role of the "
                   "specially named directory x name x spelling x route; + "
                   "version x OS-level refusal of the copy x "
                   "metafile kind x destination spelling x surroundings x "
                   "route; + the same under the FS-operation shim, deviation "
                   "bound 1; + version x kind of symlink planted in the "
                   "destination x name x path elements x file name x "
                   "{full, empty}; + version x pre-state at the target path x "
                   "path; transition = one rebuild on the real code; oracle "
                   "= nothing outside the destination created, changed or "
                   "deleted (snapshot + audit hook)",
        }[pid]

    # ------------------------------------------------------------ groups
    def groups(self, tier, seed):
        quick = tier == "quick"
        gs = []
        if self.id == "C19":
            for ver in (1, 2, 3):
                for ni in range(len(self.hostile_alphabet("X")) + 1):
                    gs.append({"kind": "hostile", "version": ver, "ni": ni,
                               "seed": seed})
                gs.append({"kind": "hostile-rel", "version": ver,
                           "seed": seed})
            for ver in (1, 2, 3):
                # the operating system refuses the copy x destination
                # spellings x surroundings
                for fault in ENV_FAULT:
                    gs.append({"kind": "env", "version": ver, "fault": fault,
                               "seed": seed, "tier": tier})
                gs.append({"kind": "env-shim", "version": ver, "seed": seed,
                           "tier": tier})
                # symbolic links planted in the destination
                for lk in LINK_KINDS:
                    gs.append({"kind": "links", "version": ver, "link": lk,
                               "seed": seed, "tier": tier})
                gs.append({"kind": "target-pre", "version": ver,
                           "seed": seed, "tier": tier})
            # the hostile metafiles through the other ways of driving a
            # rebuild (path element sequences of length <= 1)
            for ver in (1, 2, 3):
                for route in DRIVERS[1:]:
                    if quick and route == "command":
                        # (differs from `lib` by an existence test only)
                        continue
                    for half in (0, 1):
                        gs.append({"kind": "hostile", "version": ver,
                                   "route": route, "subset": True,
                                   "half": half, "seed": seed})
                if not quick:
                    for route in DRIVERS[1:]:
                        for ni in range(len(self.hostile_alphabet("X")) + 1):
                            gs.append({"kind": "hostile", "version": ver,
                                       "ni": ni, "route": route,
                                       "seed": seed})
                gs.append({"kind": "pathnames", "version": ver, "seed": seed,
                           "tier": tier})
            return gs
        if self.id == "C14":
            for fam in FAMILIES:
                for sh in ("S1", "D2n", "D3s", "D1n", "D2rr", "D1rr", "D3n",
                           "D3part"):
                    if sh == "D1n" and "v2" in fam.lower():
                        continue
                    gs.append({"kind": "prestate", "family": fam, "shape": sh,
                               "seed": seed, "tier": tier})
            for fam in FAMILIES:
                gs.append({"kind": "metadest", "family": fam, "seed": seed,
                           "tier": tier})
            for ver in (1, 2, 3):
                gs.append({"kind": "pathnames", "version": ver, "seed": seed,
                           "tier": tier})
            # the same under every member of the process-environment alphabet
            # (child interpreters)
            from mc import envrun
            for envname in envrun.ENVS:
                for ver in (1, 2, 3):
                    gs.append({"kind": "pathnames", "version": ver,
                               "env": envname, "seed": seed, "tier": tier})
            return gs
        # C13
        for B in ([2] if quick else [2, 4]):
            for P in ([2 * B] if quick else [B, 2 * B, 4 * B]):
                for sh in ["S1", "D1", "D2n", "D3", "D3s", "D3x", "D3n"]:
                    n = world.nfiles(sh)
                    top = (P + 2 if quick else min(2 * P + 1, 9)) \
                        if n >= 3 else 2 * P + 1
                    alpha = list(range(0, top + 1))
                    for g in e1.size_groups(sh, alpha):
                        gs.append({"kind": "world", "scale": "S", "B": B,
                                   "P": P, "shape": sh, "alpha": alpha,
                                   "first": g["first"], "seed": seed,
                                   "tier": tier})
        # long single files (block / piece counts beyond 2^8 .. 2^10)
        for P in (2, 1024):
            gs.append({"kind": "world", "scale": "S", "B": 2, "P": P,
                       "shape": "S1", "alpha": [514, 515, 1026, 2050],
                       "first": None, "seed": seed, "tier": tier})
        for P in ([32768] if quick else [16384, 32768]):
            for sh in ["S1", "D1", "D1n", "D2n", "D3s", "D3x", "D3n", "D3e",
                       "D2rr", "D1rr"] + (
                    [] if quick else ["D3", "D4"]):
                n = world.nfiles(sh)
                alpha = [0, 1, P - 1, P, P + 1, 2 * P, 2 * P + 1] if n < 3 \
                    else ([0, 1, P, P + 1, 2 * P] if n == 3 else [0, 1, P,
                                                                   P + 1])
                for g in e1.size_groups(sh, alpha):
                    gs.append({"kind": "world", "scale": "R", "B": REAL_B,
                               "P": P, "shape": sh, "alpha": alpha,
                               "first": g["first"], "seed": seed,
                               "tier": tier})
        # the same file (name, length, bytes) listed twice in one torrent,
        # one copy available
        gs.append({"kind": "dup", "scale": "S", "B": 2, "P": 4,
                   "sizes": [[s, s, t] for s in range(1, 10) for t in (0, 3)],
                   "seed": seed, "tier": tier})
        P = 32768
        gs.append({"kind": "dup", "scale": "R", "B": REAL_B, "P": P,
                   "sizes": [[s, s, t] for s in (1, P, P + 1, 2 * P + 1)
                             for t in (0, 5)], "seed": seed, "tier": tier})
        # payloads whose piece string / pieces roots are well-formed text
        gs.append({"kind": "lit", "scale": "R", "B": REAL_B, "P": 16384,
                   "worlds": [list(t) for t in world.text_like_worlds()],
                   "seed": seed, "tier": tier})
        gs.append({"kind": "batch", "seed": seed, "tier": tier})
        # the library surface: argument forms and drivers; several
        # Assemblers alive at once in every order of construction and run
        for fam in FAMILIES:
            gs.append({"kind": "forms", "family": fam, "seed": seed,
                       "tier": tier})
        for fams in LIVE_PAIRS + [LIVE_TRIPLE]:
            gs.append({"kind": "live", "fams": fams, "seed": seed,
                       "tier": tier})
        for ver in (1, 2, 3):
            gs.append({"kind": "pathnames", "version": ver, "seed": seed,
                       "tier": tier})
        # file names near NAME_MAX: 241, 242, 250, 251, 255 bytes, ASCII and
        # multi-byte UTF-8 with the same byte lengths (real scale)
        for nbytes in world.LONG_NAME_LENGTHS:
            for enc in "au":
                gs.append({"kind": "names", "nbytes": nbytes, "enc": enc,
                           "P": 32768, "seed": seed, "tier": tier})
        # many small files: one piece spans more than a thousand files
        P = 32768
        many = [("W1100", [1] * 1100),
                ("W1100", e1.cyclic_vectors(1100, [1, 0, 2, 3], [0])[0])]
        if not quick:
            many += [("W1100", e1.cyclic_vectors(1100, [97, 0, 101],
                                                 [0])[0]),
                     ("W300", [1] * 300),
                     ("W300", e1.cyclic_vectors(300, [0, 1, P, 5, P + 1, 2],
                                                [0])[0]),
                     ("W40", e1.cyclic_vectors(40, [1, 0, P - 1, P, 2],
                                               [0])[0])]
        # (long-running groups: scheduled early)
        gs[1:1] = [{"kind": "many", "shape": sh, "sizes": sizes, "P": P,
                    "seed": seed, "tier": tier} for sh, sizes in many]
        return gs

    # ------------------------------------------------------------- C13
    def c13_world(self, w, seed, res, fams=None, scatters=None, decoys=None,
                  listings=None):
        """Explore one world; returns [(sig, case, detail)]."""
        B, P = w["B"], w["P"]
        files = world.files_of(w, seed)
        tree = dict(files)
        found = []
        rootname = w.get("rootname") or NAME
        if w["shape"] == "D1n":
            fams = [f for f in (fams or FAMILIES) if "v2" not in f.lower()]
        if decoys is None:
            # files named and sized like the padding entries: at real scale
            decoys = DECOY + (["pad"] if w["scale"] == "R" else [])
        with tf.scale(B):
            sb0 = world.fresh_dir("rb_")
            src_parent = os.path.join(sb0, "src")
            os.mkdir(src_parent)
            srcroot = world.materialize(files, src_parent, name=rootname,
                                        shape=w["shape"])
            metas = {}
            for fam in fams or FAMILIES:
                mp = os.path.join(sb0, fam + ".torrent")
                try:
                    raw = make_meta(fam, tree, P, B, srcroot, mp,
                                    name=rootname)
                    metas[fam] = (mp, bencode.decode(raw, strict=False))
                except Exception as e:  # noqa
                    metas[fam] = (None, e)
            padded = [f for f in fams or FAMILIES
                      if metas[f][0] and pad_entries(metas[f][1])]
            for sc in scatters or SCATTER:
                for dk in decoys:
                    if dk == "pad" and not padded:
                        continue
                    sb = os.path.join(sb0, f"{sc}_{dk}")
                    os.mkdir(sb)
                    dirs, placed = scatter_files(files, sb, sc,
                                                 single_name=rootname)
                    if dk == "pad":
                        add_pad_decoys([metas[f][1] for f in padded],
                                       dirs[0], seed)
                    else:
                        add_decoys(files, placed, dk, seed)
                    orders = listings or (["sorted", "reversed"]
                                          if dk not in ("none", "pad")
                                          else ["sorted"])
                    for fam in (padded if dk == "pad" else fams or FAMILIES):
                        mp, meta = metas[fam]
                        if mp is None:
                            found.append((f"{self.id}|{fam}|metafile-setup-"
                                          f"failed", {"world": w}, repr(meta)))
                            continue
                        for order in orders:
                            dest = os.path.join(
                                sb, f"dest_{fam}_{order}")
                            os.mkdir(dest)
                            with seams.listing_order(order, under=sb):
                                st, cnt = run_rebuild([mp], dirs, dest)
                            res.transitions += 1
                            res.evals += 1
                            res.validated += 1
                            res.states += 1
                            probs = self.judge_c13(meta, tree, dest, st, cnt)
                            res.outcomes[f"{w['scale']}:" + (
                                probs[0][0] if probs else "ok")] += 1
                            for p, d in probs:
                                sig = (f"C13|{fam}|{p}|{wclass(w)}|"
                                       f"{sc}|{dk}")
                                if dk == "partial" and model.meta_version_of(
                                        meta[b"info"]) == 1 and \
                                        p == "restored-with-wrong-bytes":
                                    # one call site, one input class: the v1
                                    # piece matcher settles on the first
                                    # candidate whose first piece verifies
                                    sig = ("C13|v1-piece-matcher|restored-"
                                           "with-wrong-bytes|same-size-decoy-"
                                           "differing-only-in-a-later-piece")
                                if p == "rebuild-raised:RecursionError" and \
                                        len(files) >= 1000 and \
                                        model.meta_version_of(
                                            meta[b"info"]) == 1:
                                    # one call site, one input class
                                    sig = ("C13|v1-piece-matcher|rebuild-"
                                           "raised:RecursionError|one-piece-"
                                           "spans-a-thousand-files")
                                found.append((sig, {
                                    "world": w, "seed": seed, "family": fam,
                                    "scatter": sc, "decoy": dk,
                                    "listing": order}, d))
            shutil.rmtree(sb0, ignore_errors=True)
        return found

    def judge_c13(self, meta, tree, dest, st, cnt):
        probs = []
        if st != "ok":
            return [("rebuild-" + st, cnt)]
        want = expected_tree(meta)
        bt = {}
        name = meta[b"info"][b"name"].decode()
        for rel, data in tree.items():
            bt[(name,) + rel] = data
        got = world.read_tree(dest) if os.path.isdir(dest) else {}
        missing = [r for r in bt if r not in got]
        wrong = [r for r in bt if r in got and got[r] != bt[r]]
        if missing:
            kinds = set("empty-file" if not bt[r] else "file" for r in missing)
            probs.append(("not-restored:" + "+".join(sorted(kinds)),
                          [list(r) for r in missing][:4]))
        if wrong:
            probs.append(("restored-with-wrong-bytes", [list(r) for r in wrong]))
        # (a materialised padding entry is a file that is present, too)
        present = sum(1 for r in list(want) + list(pad_entries(meta))
                      if r in got)
        if isinstance(cnt, int) and cnt > present:
            probs.append(("counted-more-than-present", (cnt, present)))
        return probs

    def run_batch(self, g, res):
        """Three different torrents, given one by one and as a directory of
        metafiles in every listing order."""
        seed = g["seed"]
        P = 32768
        found = []
        sb = world.fresh_dir("rbb_")
        trees = []
        mdir = os.path.join(sb, "metas")
        os.mkdir(mdir)
        search = os.path.join(sb, "search")
        os.mkdir(search)
        mpaths = []
        specs = [("t1", "own-v1", [(("a",), P + 1), (("d", "b"), 7)]),
                 ("t2", "own-v2", [(("a",), 2 * P), (("c",), 0)]),
                 ("t3", "own-hybrid", [((), P + 9)]),
                 # shares the file `a` (name, length, bytes) with t2; one copy
                 ("t4", "own-hybrid", [(("a",), 2 * P, 10), (("e",), 5)])]
        for k, (name, fam, spec) in enumerate(specs):
            shared = [len(x) > 2 for x in spec]
            files = [(x[0], world.content(seed, x[2] if len(x) > 2
                                          else 10 * k + i, x[1]))
                     for i, x in enumerate(spec)]
            srcp = os.path.join(sb, "src" + name)
            os.mkdir(srcp)
            root = world.materialize(files, srcp, name=name)
            mp = os.path.join(mdir, name + ".torrent")
            raw = make_meta(fam, dict(files), P, REAL_B, root, mp, name=name)
            trees.append((name, dict(files), bencode.decode(raw, strict=False)))
            mpaths.append(mp)
            for i, (rel, data) in enumerate(files):
                if shared[i]:
                    continue
                world.write_file(os.path.join(
                    search, f"{name}_{i}", rel[-1] if rel else name), data)
        perms = list(itertools.permutations(sorted(os.listdir(mdir))))
        # the same metafiles split over a file argument and folders
        mdir_a = os.path.join(sb, "metas_a")
        mdir_b = os.path.join(sb, "metas_b")
        os.mkdir(mdir_a)
        os.mkdir(mdir_b)
        shutil.copy(mpaths[0], mdir_a)
        shutil.copy(mpaths[1], mdir_b)
        shutil.copy(mpaths[2], mdir_b)
        shutil.copy(mpaths[3], mdir_a)
        variants = [("list", mpaths, None)] + [("dir", [mdir], p)
                                               for p in perms]
        variants += [("mixed", [mpaths[0], mdir_b, mpaths[3]], None),
                     ("mixed", [mpaths[3], mdir_b, mpaths[0]], None),
                     ("mixed", [mdir_a, mdir_b], None),
                     ("mixed", [mdir_b, mdir_a], None),
                     ("mixed", [mpaths[1], mdir_a, mpaths[2]], None)]
        for kind, marg, perm in variants:
            dest = os.path.join(sb, f"dest{len(os.listdir(sb))}")
            os.mkdir(dest)

            def chooser(path, names, perm=perm):
                if perm and os.path.realpath(path) == os.path.realpath(mdir):
                    return list(perm)
                return names
            with seams.ListingSeam(chooser, under=sb):
                st, cnt = run_rebuild(marg, [search], dest,
                                      route="lib" if kind == "dir" else "cli")
                if kind == "mixed":
                    # and through the library entry point as well
                    dest2 = dest + "_lib"
                    os.mkdir(dest2)
                    st2, _ = run_rebuild(marg, [search], dest2, route="lib")
                    for name, tree, meta in trees:
                        for p, d in self.judge_c13(meta, tree, dest2, st2, 0):
                            found.append((f"C13|batch-mixed-lib|{p}",
                                          {"kind": "batch", "seed": seed,
                                           "perm": None}, d))
            if kind == "list":
                # the same with every path given relative to the working
                # directory
                dest3 = dest + "_rel"
                os.mkdir(dest3)
                old = os.getcwd()
                os.chdir(sb)
                try:
                    st3, _ = run_rebuild(
                        [os.path.relpath(m, sb) for m in marg],
                        [os.path.relpath(search, sb)],
                        os.path.relpath(dest3, sb), route="lib")
                finally:
                    os.chdir(old)
                for name, tree, meta in trees:
                    for p, d in self.judge_c13(meta, tree, dest3, st3, 0):
                        found.append((f"C13|batch-relative-paths|{p}",
                                      {"kind": "batch", "seed": seed,
                                       "perm": None}, d))
            res.transitions += 1
            res.evals += 1
            res.states += 1
            res.validated += 1
            allprobs = []
            for name, tree, meta in trees:
                allprobs += self.judge_c13(meta, tree, dest, st, 0)
            res.outcomes["batch:" + (allprobs[0][0] if allprobs else "ok")] += 1
            for p, d in allprobs:
                found.append((f"C13|batch-{kind}|{p}",
                              {"kind": "batch", "seed": seed,
                               "perm": list(perm) if perm else None}, d))
        return found

    # ------------------------------------------- C13: the library surface
    def form_case(self, c, res):
        """One torrent whose files all have an intact copy in the search
        directories handed to the Assembler, rebuilt by a host program that
        hands its arguments over / drives the classes in one of FORMS.  The
        caller's list objects are the caller's: what it does with them after
        the constructor returned must not matter."""
        import pathlib
        seed, fam, form = c["seed"], c["family"], c["form"]
        w = c["world"]
        P, B = w["P"], w["B"]
        files = world.files_of(w, seed)
        tree = dict(files)
        sb = world.fresh_dir("c13f_")
        try:
            srcp = os.path.join(sb, "src")
            os.mkdir(srcp)
            srcroot = world.materialize(files, srcp, shape=w["shape"])
            mp = os.path.join(sb, "m.torrent")
            raw = make_meta(fam, tree, P, B, srcroot, mp)
            meta = bencode.decode(raw, strict=False)
            shutil.rmtree(srcp)
            dirs, placed = scatter_files(files, sb, "split")
            # a directory that is NOT handed over: same names and sizes,
            # entirely different bytes
            other = os.path.join(sb, "other")
            os.mkdir(other)
            for i, (rel, data) in enumerate(files):
                base = rel[-1] if rel else NAME
                world.write_file(os.path.join(other, f"n{i}", base),
                                 bytes((b ^ 0x5A) or 0x11 for b in data))
            dest = os.path.join(sb, "dest")
            os.mkdir(dest)
            A = tf.rebuild.Assembler
            try:
                with tf.quiet():
                    if form == "tuple":
                        st = ("ok", A((mp,), tuple(dirs),
                                      dest).assemble_torrents())
                    elif form == "generator":
                        st = ("ok", A(iter([mp]), (d for d in dirs),
                                      dest).assemble_torrents())
                    elif form == "pathlib":
                        st = ("ok", A([mp], [pathlib.Path(d) for d in dirs],
                                      pathlib.Path(dest)).assemble_torrents())
                    elif form in ("contents-overwritten", "contents-cleared"):
                        folders = list(dirs)
                        a = A([mp], folders, dest)
                        if form == "contents-cleared":
                            folders.clear()
                        else:
                            folders[0] = other
                        st = ("ok", a.assemble_torrents())
                    elif form == "metafiles-cleared":
                        metas = [mp]
                        a = A(metas, list(dirs), dest)
                        metas.clear()
                        st = ("ok", a.assemble_torrents())
                    elif form == "rerun-emptied":
                        # a kept object asked again after the host emptied
                        # the destination
                        a = A([mp], list(dirs), dest)
                        a.assemble_torrents()
                        shutil.rmtree(dest)
                        os.mkdir(dest)
                        st = ("ok", a.assemble_torrents())
                    elif form in ("hook", "metadata", "command"):
                        st = run_rebuild([mp], dirs, dest, form)
                    else:
                        raise ValueError(form)
            except Exception as e:  # noqa
                st = ("raised:" + type(e).__name__, str(e)[:120])
            res.transitions += 1
            res.evals += 1
            res.validated += 1
            res.states += 1
            probs = self.judge_c13(meta, tree, dest, st[0], st[1])
            if st[0] != "ok" and not (os.path.isdir(dest)
                                      and world.read_tree(dest)):
                # the statement is silent about argument types and entry
                # points: a form that is refused (raises, nothing written) is
                # not judged; one that is accepted must restore everything
                res.outcomes[f"form:{form}:refused"] += 1
                res.extra["library_forms_refused"] += 1
                return []
            res.outcomes[f"form:{form}:" + (probs[0][0] if probs
                                            else "ok")] += 1
            found = []
            for p, d in probs:
                sig = f"C13|{fam}|{p}|library-form:{form}"
                if p == "counted-more-than-present" and \
                        form == "rerun-emptied":
                    # one call site (the counter is never reset), every family
                    sig = ("C13|kept-assembler-run-again|counted-more-than-"
                           "present")
                found.append((sig, dict(c, kind="form"), d))
            return found
        finally:
            shutil.rmtree(sb, ignore_errors=True)

    def run_forms(self, g, res):
        found = []
        P = 32768
        for sh, sizes in FORM_WORLDS:
            w = {"scale": "R", "B": REAL_B, "P": P, "shape": sh,
                 "sizes": sizes}
            for form in FORMS:
                found += self.form_case(
                    {"world": w, "family": g["family"], "form": form,
                     "seed": g["seed"]}, res)
        res.sample({"kind": "forms", "family": g["family"],
                    "forms": len(FORMS), "worlds": len(FORM_WORLDS)})
        return found

    def live_setup(self, fams, seed):
        """One torrent per family (three files each, different bytes), each
        with a search directory of its own that holds an intact copy of every
        file next to a same-named decoy."""
        P = 32768
        sb = world.fresh_dir("c13l_")
        sizes = [[P + 1, 0, 7], [P, 3, 2 * P], [5, 2 * P + 1, 0]]
        torrents = []
        for k, fam in enumerate(fams):
            name = f"t{k}"
            files = [(rel, world.content(seed, f"live{k}:{i}", n))
                     for i, (rel, n) in enumerate(zip(
                         [("a",), ("d", "b"), ("e",)], sizes[k % 3]))]
            srcp = os.path.join(sb, f"src{k}")
            os.mkdir(srcp)
            root = world.materialize(files, srcp, name=name)
            mp = os.path.join(sb, f"{name}.torrent")
            raw = make_meta(fam, dict(files), P, REAL_B, root, mp, name=name)
            shutil.rmtree(srcp)
            sdir = os.path.join(sb, f"search{k}")
            for i, (rel, data) in enumerate(files):
                world.write_file(os.path.join(sdir, f"k{i}", "j", rel[-1]),
                                 data)
                if data:
                    world.write_file(
                        os.path.join(sdir, f"k{i}", "!decoy", rel[-1]),
                        bytes((b ^ 0x5A) or 0x11 for b in data))
            torrents.append({"mp": mp, "dirs": [sdir], "tree": dict(files),
                             "meta": bencode.decode(raw, strict=False)})
        return sb, torrents

    def live_case(self, sb, torrents, c, res, tag):
        """Several Assemblers alive at once, constructed and run in the order
        c["order"].  lists = 'own': each is given a list of its own;
        'scratch': the host re-uses one list (cleared and refilled before
        each construction).  Judged: every destination is complete, and every
        returned count is <= the files present in that Assembler's (initially
        empty) destination."""
        lists = c["lists"]
        folders = []
        alive = {}
        dests = {}
        probs = []
        for ev in c["order"]:
            k = int(ev[1:])
            t = torrents[k]
            if ev[0] == "c":
                dests[k] = os.path.join(sb, f"dest_{tag}_{k}")
                os.mkdir(dests[k])
                if lists == "scratch":
                    folders.clear()
                    folders.extend(t["dirs"])
                    mine = folders
                else:
                    mine = list(t["dirs"])
                try:
                    with tf.quiet():
                        alive[k] = tf.rebuild.Assembler([t["mp"]], mine,
                                                        dests[k])
                except Exception as e:  # noqa
                    probs.append((f"construction-raised:{type(e).__name__}",
                                  [ev, str(e)[:120]]))
                continue
            if k not in alive:
                continue
            try:
                with tf.quiet():
                    st, cnt = "ok", alive[k].assemble_torrents()
            except Exception as e:  # noqa
                st, cnt = "raised:" + type(e).__name__, str(e)[:120]
            res.transitions += 1
            # the count, judged when it is returned
            for p, d in self.judge_c13(t["meta"], t["tree"], dests[k], st,
                                       cnt):
                if p == "counted-more-than-present" or p.startswith(
                        "rebuild-"):
                    probs.append((p, [ev, d]))
        # the trees, judged when everything has run
        for k, t in enumerate(torrents):
            for p, d in self.judge_c13(t["meta"], t["tree"], dests[k], "ok",
                                       None):
                probs.append((p, [f"r{k}", d]))
        res.evals += 1
        res.validated += 1
        res.states += 1
        res.outcomes["live:" + (probs[0][0] if probs else "ok")] += 1
        for d_ in dests.values():
            shutil.rmtree(d_, ignore_errors=True)
        found = []
        for p, d in model._dedup(probs):
            if p == "counted-more-than-present":
                # one call site (the callback of the last Assembler made is
                # registered on the class), every family and order
                sig = "C13|several-live-assemblers|counted-more-than-present"
            else:
                sig = (f"C13|several-live-assemblers|{p}|"
                       f"{'+'.join(c['fams'])}|lists={lists}")
            found.append((sig, dict(c, kind="live"), d))
        return found

    def run_live(self, g, res):
        fams, seed = g["fams"], g["seed"]
        sb, torrents = self.live_setup(fams, seed)
        found = []
        n = 0
        try:
            for order in interleavings(len(fams)):
                for lists in LIVE_LISTS:
                    n += 1
                    found += self.live_case(
                        sb, torrents, {"fams": fams, "order": order,
                                       "lists": lists, "seed": seed},
                        res, str(n))
        finally:
            shutil.rmtree(sb, ignore_errors=True)
        res.sample({"kind": "live", "fams": fams, "cases": n})
        return found

    # ------------------------------------- C13 / C14 / C19: path names
    def pathname_case(self, c, res):
        """A destination / search directory / metafile (directory) whose NAME
        contains `$NAME`, `${NAME}` with NAME set in the process environment,
        begins with `~`, or looks like `%NAME%`, given by its absolute path or
        relative to the working directory.  A path is a path: the copies
        belong below the directory that was GIVEN (C14: 'placed at the path the
        metafile assigns'; C19: nothing outside the destination; C13: the
        torrent is restored from the given search directories).  With
        c["env"] the rebuild runs in a child interpreter under that member of
        envrun.ENVS (library route, absolute spellings)."""
        ver, role, pname, spell = c["version"], c["role"], c["pname"], \
            c["spell"]
        route, seed, envname = c["route"], c["seed"], c.get("env")
        P = 16384
        tree = {("a",): world.content(seed, 0, P + 3),
                ("d", "bé"): world.content(seed, 1, 7),
                ("e",): b""}
        cr = os.path.realpath(world.fresh_dir("pn_"))
        saved = {k: os.environ.get(k) for k in ("HOME", "VERIF_PN")}
        try:
            home = os.path.join(cr, "home")
            work = os.path.join(cr, "work")
            special = os.path.join(work, pname)
            world.write_file(os.path.join(home, "unrelated.txt"), b"mine")
            os.makedirs(special)
            search = special if role == "search" else \
                os.path.join(cr, "search")
            rd = special if role == "dest" else os.path.join(cr, "dest")
            mdir = special if role in ("metafile", "metadir") else \
                os.path.join(cr, "metas")
            for p in (search, rd, mdir):
                os.makedirs(p, exist_ok=True)
            for i, (rel, data) in enumerate(sorted(tree.items())):
                world.write_file(os.path.join(search, f"k{i}", "j", rel[-1]),
                                 data)
            mp = os.path.join(mdir, "m.torrent")
            with open(mp, "wb") as f:
                f.write(self._encode(ver, "top", tree, P))
            meta = bencode.decode(self._encode(ver, "top", tree, P),
                                  strict=False)
            marg = mdir if role == "metadir" else mp
            cwd = None
            args = [marg, search, rd]
            if spell == "rel":
                cwd = work
                args = [os.path.relpath(p, work) for p in args]
            before = world.snapshot(cr)
            before_dest = world.read_tree(rd)
            events = []
            if envname:
                from mc import envrun
                body = (
                    "import os\n"
                    f"os.environ['VERIF_PN'] = {PN_VALUE!a}\n"
                    "from torrentfile.rebuild import Assembler\n"
                    f"a = Assembler([{args[0]!a}], [{args[1]!a}], "
                    f"{args[2]!a})\n"
                    "OBS = a.assemble_torrents()\n")
                rep = envrun.run(envname, body, cwd=cwd)
                if rep["ok"]:
                    st, cnt = "ok", rep["obs"]
                elif rep["report"]:
                    st, cnt = "raised:" + str(rep["exc"]), rep["msg"]
                else:
                    st, cnt = "raised:child-died", f"rc={rep['rc']}"
            else:
                os.environ["HOME"] = home
                os.environ["VERIF_PN"] = PN_VALUE
                with working_dir(cwd), seams.Audit(None) as audit:
                    st, cnt = run_rebuild([args[0]], [args[1]], args[2],
                                          route)
                events = audit.events
            after = world.snapshot(cr)
            after_dest = world.read_tree(rd)
            res.transitions += 1
            res.evals += 1
            res.validated += 1
            res.states += 1
            drel = os.path.relpath(rd, cr)

            def in_dest(k):
                return k == drel or k.startswith(drel + os.sep)
            changed = sorted(k for k in set(before) | set(after)
                             if before.get(k) != after.get(k))
            outside = [k for k in changed if not in_dest(k)]
            probs = []
            if self.id == "C19":
                bad_ev = events_outside(events, rd)
                if outside:
                    probs.append(("changed-outside-destination", outside[:5]))
                elif bad_ev:
                    probs.append(("mutating-event-outside-destination",
                                  bad_ev[:4]))
            elif self.id == "C14":
                srcs = [os.path.relpath(p, cr) for p in (search, mdir)
                        if p != rd]
                ch = [k for k in outside if any(
                    k == s or k.startswith(s + os.sep) for s in srcs)]
                if ch:
                    probs.append(("search-dirs-or-metafiles-changed", ch[:4]))
                # a regular file that appeared / changed anywhere else is a
                # file written at a path the metafile does not assign
                stray = [k for k in outside if k not in ch
                         and after.get(k, ("",))[0] == "f"]
                if stray:
                    probs.append(("wrote-at-unassigned-path", stray[:4]))
                srcfiles = {}
                for rel, data in world.read_tree(search).items():
                    srcfiles.setdefault(rel[-1], []).append(data)
                probs += written_probs(before_dest, after_dest,
                                       expected_tree(meta), pad_entries(meta),
                                       srcfiles, set())
            elif not envname:
                # (a hostile process environment may make rebuild refuse;
                # C13 is judged in the harness' own environment only)
                probs += self.judge_c13(meta, tree, rd, st, cnt)
            res.outcomes[f"pathname:{role}:{pname_class(pname)}:" +
                         ("env:" if envname else "") +
                         f"{st.split(':')[0]}/" +
                         (probs[0][0] if probs else "ok")] += 1
            found = []
            for p, d in model._dedup(probs):
                sig = (f"{self.id}|v{ver}|{p}|path-name-of-the-"
                       f"{'destination' if role == 'dest' else role}|"
                       f"{pname_class(pname)}" +
                       ("|process-environment" if envname else ""))
                found.append((sig, dict(c, kind="pathname"),
                              {"problem": d, "given": args, "rebuild": st,
                               "cwd": cwd and cwd.replace(cr, "<case>")}))
            return found
        finally:
            for k, v in saved.items():
                if v is None:
                    os.environ.pop(k, None)
                else:
                    os.environ[k] = v
            shutil.rmtree(cr, ignore_errors=True)

    def run_pathnames(self, g, res):
        found = []
        n = 0
        if g.get("env"):
            for pname in PATH_NAMES_ENV:
                for role in ("dest", "search"):
                    found += self.pathname_case(
                        {"version": g["version"], "role": role,
                         "pname": pname, "spell": "abs", "route": "lib",
                         "env": g["env"], "seed": g["seed"]}, res)
                    n += 1
            res.sample({"kind": "pathname", "version": g["version"],
                        "env": g["env"], "cases": n})
            return found
        for role in PATH_ROLES:
            for pname in PATH_NAMES:
                for spell in PATH_SPELL:
                    for route in ("lib", "cli"):
                        found += self.pathname_case(
                            {"version": g["version"], "role": role,
                             "pname": pname, "spell": spell, "route": route,
                             "seed": g["seed"]}, res)
                        n += 1
        res.sample({"kind": "pathname", "version": g["version"], "cases": n})
        return found

    # ------------------------------------------------------------- C14
    def run_prestate(self, g, res):
        seed, fam, sh = g["seed"], g["family"], g["shape"]
        P = 32768
        quick = g["tier"] == "quick"
        n = world.nfiles(sh)
        sizesets = {1: [[P + 5], [7]] if sh not in ("D1n", "D1rr")
                    else [[P + 5]],
                    2: [[P + 5, 9], [2 * P, P]],
                    3: [[P + 5, 9, P], [5, 0, 2 * P]]}[n]
        pre_alpha = ["absent", "correct", "wrong-same-size", "shorter",
                     "longer"]
        # "dir": the target path is taken by a directory that holds an
        # unrelated file.  quick: next to absent-only or correct-only
        # neighbours; thorough: the full product
        pres = list(itertools.product(pre_alpha, repeat=n))
        if quick:
            for other in ("absent", "correct"):
                pres += [v for v in itertools.product((other, "dir"),
                                                      repeat=n)
                         if "dir" in v and v not in pres]
        else:
            pres = list(itertools.product(pre_alpha + ["dir"], repeat=n))
        found = []
        for sizes in sizesets:
            w = {"scale": "R", "B": REAL_B, "P": P, "shape": sh,
                 "sizes": sizes}
            files = world.files_of(w, seed)
            tree = dict(files)
            for pre in pres:
                for dk, order in (("none", "sorted"), ("decoy", "sorted"),
                                  ("decoy", "reversed"), ("longer", "sorted"),
                                  ("longer", "reversed"),
                                  ("decoy-lo", "sorted"),
                                  ("decoy-lo", "reversed"),
                                  ("decoy-hi", "sorted"),
                                  ("decoy-hi", "reversed"),
                                  ("decoy-dir0", "sorted"),
                                  ("pad", "sorted"), ("pad", "reversed")):
                    if dk in ("longer", "decoy-lo", "decoy-hi", "decoy-dir0",
                              "pad") \
                            and any(p != "absent" for p in pre) and quick:
                        continue
                    if dk == "pad" and fam not in PADDED:
                        continue
                    found += self.c14_history(w, files, tree, fam, pre, dk,
                                              seed, res, quick, order)
        return found

    def c14_history(self, w, files, tree, fam, pre, dk, seed, res, quick,
                    order="sorted"):
        P, B = w["P"], w["B"]
        found = []
        sb = world.fresh_dir("c14_")
        srcp = os.path.join(sb, "src")
        os.mkdir(srcp)
        srcroot = world.materialize(files, srcp)
        mdir = os.path.join(sb, "metas")
        os.mkdir(mdir)
        mp = os.path.join(mdir, "m1.torrent")
        raw = make_meta(fam, tree, P, B, srcroot, mp)
        meta = bencode.decode(raw, strict=False)
        # a second torrent sharing file names, different content
        files2 = [(rel, world.content(seed, 50 + i, len(d) + 3))
                  for i, (rel, d) in enumerate(files)]
        src2 = os.path.join(sb, "src2")
        os.mkdir(src2)
        root2 = world.materialize(files2, src2, name="other")
        mp2 = os.path.join(mdir, "m2.torrent")
        raw2 = make_meta(fam, dict(files2), P, B, root2, mp2, name="other")
        meta2 = bencode.decode(raw2, strict=False)
        shutil.rmtree(srcp)
        shutil.rmtree(src2)
        dirs, placed = scatter_files(files, sb, "deep")
        decoys = add_decoys(files, placed, dk, seed)
        pad_decoy_bytes = set()
        if dk == "pad":
            # files named and sized like the padding entries of both
            # metafiles, without a zero byte
            pad_decoy_bytes = add_pad_decoys([meta, meta2], dirs[0], seed)
            if not pad_decoy_bytes:
                shutil.rmtree(sb, ignore_errors=True)
                return []
        _d2, _p2 = scatter_files(files2, sb, "flat", single_name="other",
                                 tag="b")
        dirs = dirs + _d2
        if dk == "decoy-dir0" and decoys:
            dirs = dirs + [os.path.join(sb, "search0")]
        dest = os.path.join(sb, "dest")
        os.mkdir(dest)
        want = expected_tree(meta)
        name = NAME
        bt = {(name,) + rel: data for rel, data in tree.items()}
        for (rel, data), st in zip(files, pre):
            p = os.path.join(dest, name, *rel) if rel else \
                os.path.join(dest, name)
            if st == "absent":
                continue
            if st == "dir":
                world.write_file(os.path.join(p, "unrelated.txt"), b"mine")
                continue
            if st == "correct":
                body = data
            elif st == "wrong-same-size":
                body = bytes((b ^ 0x21) or 1 for b in data)
            elif st == "shorter":
                body = data[:len(data) // 2]
                if len(body) == len(data):
                    continue
            else:
                body = data + b"tail"
            world.write_file(p, body)
        world.write_file(os.path.join(dest, "unrelated.bin"), b"mine")
        decoy_bytes = set(pad_decoy_bytes)
        for q in (decoys if dk.startswith("decoy") else []):
            with open(q, "rb") as f:
                decoy_bytes.add(f.read())
        hist = [("m1", "lib"), ("m1", "lib"), ("m2", "lib")] if quick else \
            [("m1", "lib"), ("m1", "cli"), ("m2", "lib"), ("m1", "lib")]
        outside_before = world.snapshot(sb)
        for step, (which, route) in enumerate(hist):
            before = world.read_tree(dest)
            with seams.Audit(None) as audit, seams.listing_order(order,
                                                                 under=sb):
                st, cnt = run_rebuild([mp if which == "m1" else mp2], dirs,
                                      dest, route)
            after = world.read_tree(dest)
            res.transitions += 1
            res.evals += 1
            res.states += 1
            res.validated += 1
            probs = []
            # 1. nothing outside the destination changes
            snap = world.snapshot(sb)
            ch = [k for k in set(outside_before) | set(snap)
                  if outside_before.get(k) != snap.get(k)
                  and not (k == "dest" or k.startswith("dest" + os.sep))]
            if ch:
                probs.append(("search-dirs-or-metafiles-changed", ch[:4]))
            rd = os.path.realpath(dest)
            bad_ev = []
            for ev in audit.events:
                if ev[0] not in seams.LOWLEVEL:
                    continue
                for p in ev[1:]:
                    rp = os.path.realpath(os.path.dirname(p))
                    rp = os.path.join(rp, os.path.basename(p))
                    if not (rp == rd or rp.startswith(rd + os.sep)):
                        bad_ev.append(list(ev))
            if bad_ev:
                probs.append(("mutating-event-outside-destination",
                              bad_ev[:3]))
            # 2. full-length destination files are untouched
            cur_meta = meta if which == "m1" else meta2
            for m_ in (meta, meta2):
                for rel, length in expected_tree(m_).items():
                    if rel in before and len(before[rel]) >= length and \
                            after.get(rel) != before[rel]:
                        probs.append(("full-length-destination-file-altered",
                                      list(rel)))
            if before.get(("unrelated.bin",)) != after.get(("unrelated.bin",)):
                probs.append(("unrelated-destination-file-altered", None))
            # 3. everything written is a verified copy at an assigned path
            assigned = expected_tree(cur_meta)
            padpaths = pad_entries(cur_meta)
            srcfiles = {}
            for d_ in dirs:
                for rel, data in world.read_tree(d_).items():
                    srcfiles.setdefault(rel[-1], []).append(data)
            probs += written_probs(before, after, assigned, padpaths,
                                   srcfiles, decoy_bytes)
            if st != "ok":
                res.extra["rebuild_raised_in_history"] += 1
            res.outcomes[probs[0][0] if probs else "ok"] += 1
            for p, d in model._dedup(probs):
                sig = (f"C14|{fam}|{p}|step{step}:{which}|decoy={dk}" +
                       ("|directory-at-a-target-path" if "dir" in pre
                        else ""))
                if p == "wrote-at-unassigned-path" and "dir" in pre:
                    # one call site (the copy onto an existing directory),
                    # one input class, every family
                    sig = ("C14|copypath|wrote-at-unassigned-path|"
                           "directory-at-a-target-path")
                found.append((sig,
                              {"kind": "prestate", "world": w, "family": fam,
                               "pre": list(pre), "decoy": dk, "seed": seed,
                               "quick": quick, "listing": order}, d))
        if dk == "none" and all(p == "absent" for p in pre):
            # one more step of the history: every candidate is replaced, at its
            # own path and with its own size, by bytes that verify nowhere; the
            # destination is emptied; the same metafile is rebuilt again in
            # the same process.  Nothing may be placed.
            fakes = set()
            for i, (rel, data) in enumerate(files):
                if data:
                    fake = bytes((b ^ 0x5A) or 0x11 for b in data)
                    world.write_file(placed[i], fake)
                    fakes.add(fake)
            shutil.rmtree(os.path.join(dest, name), ignore_errors=True)
            if os.path.isfile(os.path.join(dest, name)):
                os.remove(os.path.join(dest, name))
            before = world.read_tree(dest)
            with seams.listing_order(order, under=sb):
                st, cnt = run_rebuild([mp], dirs, dest, "lib")
            after = world.read_tree(dest)
            res.transitions += 1
            res.evals += 1
            res.states += 1
            res.validated += 1
            bad = [list(rel) for rel, data in after.items()
                   if before.get(rel) != data and data in fakes]
            res.outcomes["swap:" + ("decoy-placed" if bad else "ok")] += 1
            if bad:
                found.append((f"C14|{fam}|all-different-decoy-placed|"
                              f"after-candidate-swap|decoy={dk}",
                              {"kind": "prestate", "world": w, "family": fam,
                               "pre": list(pre), "decoy": dk, "seed": seed,
                               "quick": quick, "listing": order}, bad))
        shutil.rmtree(sb, ignore_errors=True)
        return found

    def c14_metadest(self, fam, layout, size, where, seed, res, quick=True,
                     hist=None):
        """The metafile itself lives inside the destination (the statement
        constrains the destination against the search directories only):
        'at-payload-path' = exactly where it tells rebuild to put a payload
        file of its own name, 'beside' = elsewhere in the destination.
        History: rebuild, rebuild again.  Judged: the metafile and the search
        directories keep their bytes; what is written is a verified copy at
        an assigned path."""
        P, B = 32768, REAL_B
        found = []
        sb = world.fresh_dir("c14m_")
        if layout == "single":
            name = "y.torrent"
            files = [((), world.content(seed, 0, size))]
            mrel = (name,)
        else:
            name = "pack"
            files = [(("m.torrent",), world.content(seed, 0, size)),
                     (("d", "z.bin"), world.content(seed, 1, P + 9))]
            mrel = (name, "m.torrent")
        if where == "beside":
            mrel = ("metas", "m1.torrent")
        tree = dict(files)
        srcp = os.path.join(sb, "src")
        os.mkdir(srcp)
        srcroot = world.materialize(files, srcp, name=name)
        dest = os.path.join(sb, "dest")
        mp = os.path.join(dest, *mrel)
        os.makedirs(os.path.dirname(mp))
        raw = make_meta(fam, tree, P, B, srcroot, mp, name=name)
        meta = bencode.decode(raw, strict=False)
        shutil.rmtree(srcp)
        dirs, _placed = scatter_files(files, sb, "deep", single_name=name)
        world.write_file(os.path.join(dest, "unrelated.bin"), b"mine")
        assigned = expected_tree(meta)
        srcfiles = {}
        for d_ in dirs:
            for rel, data in world.read_tree(d_).items():
                srcfiles.setdefault(rel[-1], []).append(data)
        outside_before = world.snapshot(sb)
        # (hist: the drivers of the successive rebuilds, see DRIVERS)
        given_hist = hist
        hist = hist or (["lib", "lib"] if quick else ["lib", "cli", "lib"])
        for step, route in enumerate(hist):
            if not os.path.isfile(mp):
                break
            with open(mp, "rb") as f:
                mbefore = f.read()
            before = world.read_tree(dest)
            st, cnt = run_rebuild([mp], dirs, dest, route)
            after = world.read_tree(dest)
            res.transitions += 1
            res.evals += 1
            res.states += 1
            res.validated += 1
            probs = []
            mafter = None
            if os.path.isfile(mp):
                with open(mp, "rb") as f:
                    mafter = f.read()
            if mafter != mbefore:
                probs.append(("metafile-altered",
                              {"metafile": list(mrel),
                               "length-before": len(mbefore),
                               "length-after": None if mafter is None
                               else len(mafter),
                               "now-equals-payload": mafter == files[0][1]}))
            snap = world.snapshot(sb)
            ch = [k for k in set(outside_before) | set(snap)
                  if outside_before.get(k) != snap.get(k)
                  and not (k == "dest" or k.startswith("dest" + os.sep))]
            if ch:
                probs.append(("search-dirs-changed", ch[:4]))
            # (the metafile's own path is judged above)
            b_ = {k: v for k, v in before.items() if k != mrel}
            a_ = {k: v for k, v in after.items() if k != mrel}
            probs += written_probs(b_, a_, assigned, pad_entries(meta),
                                   srcfiles, set())
            if st != "ok":
                res.extra["rebuild_raised_in_history"] += 1
            res.outcomes["metadest:" + (probs[0][0] if probs else "ok")] += 1
            for p, d in model._dedup(probs):
                sig = (f"C14|{fam}|{p}|metafile-inside-destination-"
                       f"{where}|{layout}" +
                       (f"|driver={route}" if route not in ("lib", "cli")
                        else ""))
                if p == "metafile-altered" and where == "at-payload-path" \
                        and route in ("lib", "cli"):
                    # one call site (the copy onto a shorter existing file),
                    # one input class, every family
                    sig = ("C14|copypath|metafile-altered|metafile-stored-"
                           "at-the-path-it-assigns-to-a-payload-file")
                found.append((sig,
                              {"kind": "metadest", "family": fam,
                               "layout": layout, "size": size,
                               "where": where, "seed": seed, "quick": quick,
                               "hist": given_hist},
                              d))
        shutil.rmtree(sb, ignore_errors=True)
        return found

    def run_metadest(self, g, res):
        found = []
        P = 32768
        for layout in ("single", "dir"):
            # a payload file larger / smaller than the metafile
            for size in (P + 5, 7):
                for where in ("at-payload-path", "beside"):
                    found += self.c14_metadest(
                        g["family"], layout, size, where, g["seed"], res,
                        g["tier"] == "quick")
                    # the library's other entry points
                    for hist in ([["hook", "metadata"]]
                                 if g["tier"] == "quick" else
                                 [["hook", "metadata"], ["metadata", "hook"],
                                  ["command", "command"]]):
                        found += self.c14_metadest(
                            g["family"], layout, size, where, g["seed"], res,
                            g["tier"] == "quick", hist=hist)
        return found

    # ------------------------------------------------------------- C19
    @staticmethod
    def hostile_alphabet(abs_target):
        return ["d", "..", ".", "", "<ABS>", "a/../../b", "../..",
                "/".join([".."] * 12), "<SIBLING>", "<OUT-AND-BACK>"]

    def run_hostile(self, g, res):
        seed, ver = g["seed"], g["version"]
        found = []
        route = g.get("route") or "lib"
        subset = bool(g.get("subset"))
        if subset and "ni" not in g:
            # driver groups: every name, split over two groups
            for ni in range(len(self.hostile_alphabet("X")) + 1):
                if ni % 2 == g["half"]:
                    found += self.run_hostile(dict(g, ni=ni), res)
            return found
        P = 16384
        data = world.content(seed, 0, P + 3)
        sb = world.fresh_dir("c19_")
        deep = os.path.join(sb, *[f"l{i}" for i in range(20)])
        os.makedirs(deep)
        abs_target = os.path.join(sb, *[f"t{i}" for i in range(20)],
                                  "abs_target")
        alpha = self.hostile_alphabet(abs_target)
        names = ["top"] + alpha
        name = names[g["ni"]]
        elem_seqs = [()] + [(a,) for a in alpha] + ([] if subset else list(
            itertools.product(alpha, repeat=2)))
        lasts = ["f", "..", "a/../../f"]
        search = os.path.join(sb, "search")
        world.write_file(os.path.join(search, "f"), data)
        world.write_file(os.path.join(search, "sub", "b"), data)
        if name not in ("", ".", "..") and "/" not in name and \
                "<" not in name:
            world.write_file(os.path.join(search, "n", name), data)
        world.write_file(os.path.join(search, "empty", "f"), b"")
        world.write_file(os.path.join(search, "benign", "!ok"), data)
        n = 0
        variants = []
        for seq in elem_seqs:
            for last in lasts:
                for single in ((False, True) if not seq and last == "f"
                               else (False,)):
                    variants.append((seq, last, single, data, None))
                if last == "f":
                    # the same with a zero-length file (separate copy site)
                    variants.append((seq, last, False, b"", None))
        # a benign entry listed before the hostile one (its verified copy
        # must not relax what is checked for the next entry)
        for seq in elem_seqs:
            if seq:
                variants.append((seq, "f", False, data, "BENIGN-FIRST"))
        if name == "top":
            # benign metafile, but the destination already contains a symlink
            # that leads outside
            for link_at in ("top", "top/d"):
                for body in (data, b""):
                    variants.append((("d",), "f", False, body, link_at))
        # (the command line differs from `lib` before the Assembler is made
        # only: its driver group goes without the planted victim files)
        variants = [v + (vic,) for v in variants
                    for vic in ((False,) if subset and route == "cli"
                                else (False, True))]
        for seq, last, single, data, link_at, victims in variants:
            if True:
                if True:
                    ups = sum(part.split("/").count("..")
                              for part in (name,) + tuple(seq) + (last,))
                    if ups > 20:
                        # would climb out of the sandbox on the real disk
                        res.extra["hostile_cases_skipped_too_many_dotdot"] += 1
                        continue
                    n += 1
                    dest = os.path.join(deep, f"dest{n}")
                    os.mkdir(dest)
                    benign_first = link_at == "BENIGN-FIRST"
                    if benign_first:
                        link_at = None
                    if link_at:
                        outside = os.path.join(sb, f"outside{n}")
                        os.mkdir(outside)
                        lp = os.path.join(dest, link_at)
                        os.makedirs(os.path.dirname(lp), exist_ok=True)
                        os.symlink(outside, lp)
                    # <SIBLING> = a directory next to the destination whose
                    # name has the destination's name as a prefix
                    sib = "../" + os.path.basename(dest) + "x"
                    # as a path element the walk starts below dest/<name>/,
                    # as the name itself directly below dest/
                    rname_depth = 0 if name == "<OUT-AND-BACK>" else 1
                    # <OUT-AND-BACK> leaves the destination, names a new
                    # directory outside it and comes back: the resolved
                    # target is inside, the spelled path walks outside
                    oab = ("x/../../../newdir_outside/../" +
                           os.path.basename(dest)) if rname_depth == 1 else \
                        ("x/../../newdir_outside/../" + os.path.basename(dest))
                    subst = {"<SIBLING>": sib, "<ABS>": abs_target,
                             "<OUT-AND-BACK>": oab}
                    rseq = tuple(subst.get(e, e) for e in seq)
                    rname = subst.get(name, name)
                    tree = {(): data} if single else {rseq + (last,): data}
                    if benign_first:
                        # "!ok" sorts before every hostile element
                        tree[("!ok",)] = data
                    if ver == 1:
                        m = model.ref_v1(rname, tree, P)
                    elif ver == 2:
                        m = model.ref_v2(rname, tree, P, REAL_B)
                    else:
                        m = model.ref_hybrid(rname, tree, P, REAL_B)
                    mp = os.path.join(sb, "m.torrent")
                    with open(mp, "wb") as f:
                        f.write(bencode.encode(m))
                    planted = []
                    if victims and not link_at:
                        # a shorter regular file already sits where the
                        # hostile path points (outside the destination)
                        parts = [rname] + ([] if single else
                                           list(rseq) + [last])
                        tgt = os.path.normpath(os.path.join(dest, *parts))
                        rd_ = os.path.realpath(dest)
                        inside_sb = tgt.startswith(sb + os.sep)
                        outside_dest = not (tgt == rd_ or
                                            tgt.startswith(rd_ + os.sep))
                        if inside_sb and outside_dest and not \
                                os.path.lexists(tgt):
                            try:
                                world.write_file(tgt, b"vic")
                                planted.append(tgt)
                            except OSError:
                                pass
                        if not planted:
                            shutil.rmtree(dest, ignore_errors=True)
                            continue
                    before = world.snapshot(sb)
                    with seams.Audit(None) as audit:
                        st, cnt = run_rebuild([mp], [search], dest, route)
                    after = world.snapshot(sb)
                    res.transitions += 1
                    res.evals += 1
                    res.states += 1
                    res.validated += 1
                    drel = os.path.relpath(dest, sb)
                    ch = sorted(k for k in set(before) | set(after)
                                if before.get(k) != after.get(k)
                                and not (k == drel or
                                         k.startswith(drel + os.sep)))
                    rd = os.path.realpath(dest)
                    bad_ev = []
                    for ev in audit.events:
                        if ev[0] not in seams.LOWLEVEL:
                            continue
                        for p in ev[1:]:
                            rp = os.path.realpath(os.path.dirname(p))
                            rp = os.path.join(rp, os.path.basename(p))
                            if not (rp == rd or rp.startswith(rd + os.sep)):
                                bad_ev.append(list(ev))
                    prob = None
                    if ch:
                        prob = "changed-outside-destination"
                    elif bad_ev:
                        prob = "mutating-event-outside-destination"
                    res.outcomes[(prob or "ok") + "/" + st.split(":")[0]] += 1
                    if prob:
                        hostile = "name" if name != "top" else (
                            "last-element" if last != "f" else "path-element")
                        if link_at:
                            hostile = "symlink-in-destination"
                        if not data:
                            hostile += "+empty-file"
                        if victims:
                            hostile += "+existing-outside-file"
                        if benign_first:
                            hostile += "+after-a-benign-entry"
                        found.append((
                            f"C19|v{ver}|{prob}|hostile-{hostile}" +
                            (f"|driver={route}" if route != "lib" else ""),
                            {"kind": "hostile", "version": ver,
                             "route": route, "subset": subset,
                             "ni": g["ni"], "seq": list(seq), "last": last,
                             "single": single, "seed": seed,
                             "empty": not data, "link": link_at,
                             "victims": victims, "benign_first": benign_first},
                            {"changed": ch[:5], "events": bad_ev[:3]}))
                        # clean escaped files so that later cases start clean
                        for k in ch:
                            p = os.path.join(sb, k)
                            if k not in before and os.path.lexists(p):
                                shutil.rmtree(p, ignore_errors=True) \
                                    if os.path.isdir(p) else os.remove(p)
                    shutil.rmtree(dest, ignore_errors=True)
                    for t in planted:
                        # remove the planted victim and the directories
                        # created for it
                        top = t
                        while os.path.dirname(top) not in (sb, deep) and \
                                os.path.dirname(top).startswith(sb) and \
                                not os.listdir(os.path.dirname(top))[1:]:
                            top = os.path.dirname(top)
                        if os.path.isdir(top) and top not in (sb, deep):
                            shutil.rmtree(top, ignore_errors=True)
                        elif os.path.exists(t):
                            os.remove(t)
        res.sample({"kind": "hostile", "version": ver, "name": name,
                    "driver": route, "cases": n})
        return found

    def run_hostile_rel(self, g, res):
        """Destinations given relative to the working directory, in a history
        of two rebuilds with a chdir in between: the second, hostile metafile
        aims at the place the first rebuild was allowed to write to."""
        seed, ver = g["seed"], g["version"]
        found = []
        P = 16384
        data = world.content(seed, 0, P + 3)

        def meta_of(name, tree):
            if ver == 1:
                return model.ref_v1(name, tree, P)
            if ver == 2:
                return model.ref_v2(name, tree, P, REAL_B)
            return model.ref_hybrid(name, tree, P, REAL_B)

        hostiles = {
            "elements": lambda other: ("x", {("..", "..", "..", other, "out",
                                             "pwn.bin"): data,
                                            ("ok.bin",): data}),
            "name": lambda other: (f"../../{other}/out", {("pwn.bin",): data,
                                                          ("ok.bin",): data}),
            "overwrite": lambda other: (f"../../{other}/out/top",
                                        {("hello.bin",): data + data,
                                         ("ok.bin",): data}),
        }
        for hname, mk in hostiles.items():
            for first_wd, second_wd in (("w1", "w2"), ("w2", "w1")):
                for first_dest in ("out", "./out", "<ABS>"):
                    for route in ("lib", "cli"):
                        sb = world.fresh_dir("c19r_")
                        for w_ in ("w1", "w2"):
                            os.makedirs(os.path.join(sb, w_))
                        search = os.path.join(sb, "search")
                        world.write_file(os.path.join(search, "hello.bin"),
                                         data)
                        world.write_file(os.path.join(search, "pwn.bin"), data)
                        world.write_file(os.path.join(search, "ok.bin"), data)
                        world.write_file(os.path.join(search, "big",
                                                      "hello.bin"),
                                         data + data)
                        mb = os.path.join(sb, "benign.torrent")
                        with open(mb, "wb") as f:
                            f.write(bencode.encode(meta_of(
                                "top", {("hello.bin",): data})))
                        hn, htree = mk(first_wd)
                        mh = os.path.join(sb, "hostile.torrent")
                        with open(mh, "wb") as f:
                            f.write(bencode.encode(meta_of(hn, htree)))
                        old = os.getcwd()
                        case = {"kind": "hostile-rel", "version": ver,
                                "hostile": hname, "first": first_wd,
                                "first_dest": first_dest, "route": route,
                                "seed": seed}
                        try:
                            os.chdir(os.path.join(sb, first_wd))
                            d1 = first_dest if first_dest != "<ABS>" else \
                                os.path.join(sb, first_wd, "out")
                            st1, _ = run_rebuild([mb], [search], d1, route)
                            os.chdir(os.path.join(sb, second_wd))
                            before = world.snapshot(sb)
                            st2, _ = run_rebuild([mh], [search], "out", route)
                            after = world.snapshot(sb)
                        finally:
                            os.chdir(old)
                        res.transitions += 2
                        res.evals += 1
                        res.states += 1
                        res.validated += 1
                        drel = os.path.join(second_wd, "out")
                        ch = sorted(k for k in set(before) | set(after)
                                    if before.get(k) != after.get(k)
                                    and not (k == drel or
                                             k.startswith(drel + os.sep)))
                        first_ok = os.path.isfile(os.path.join(
                            sb, first_wd, "out", "top", "hello.bin")) or \
                            any(k.startswith(os.path.join(first_wd, "out"))
                                for k in before)
                        if not first_ok:
                            res.extra["relative_history_first_step_void"] += 1
                        res.outcomes[("changed-outside" if ch else "ok") +
                                     "/rel"] += 1
                        if ch:
                            found.append((
                                f"C19|v{ver}|changed-outside-destination|"
                                f"relative-destination-after-chdir|{hname}",
                                case, {"changed": ch[:5], "first": st1,
                                       "second": st2}))
                        shutil.rmtree(sb, ignore_errors=True)
        return found

    # ------------------------------------------- C19: the copy is refused
    @staticmethod
    def _encode(ver, name, tree, P):
        if ver == 1:
            m = model.ref_v1(name, tree, P)
        elif ver == 2:
            m = model.ref_v2(name, tree, P, REAL_B)
        else:
            m = model.ref_hybrid(name, tree, P, REAL_B)
        return bencode.encode(m)

    @staticmethod
    def env_exists(c):
        mk, fault, spell, sur = c["meta"], c["fault"], c["spell"], \
            c["surround"]
        if sur == "absent" and spell in ("link-final", "cwd"):
            return False
        if mk == "single" and fault.startswith("long-"):
            return False
        if mk == "empty" and fault.startswith("fsize-"):
            return False        # an empty file never reaches the limit
        return True

    def env_case(self, c, res, run=None):
        """One rebuild of a metafile that stays inside the destination, whose
        candidate verifies, and whose copy the operating system refuses (or
        not: fault 'none').  Axes: version, metafile kind, kind of refusal,
        spelling of the destination argument, what else is in and around the
        destination, route.  With `run` (an e2.Run) the refusal comes from the
        FS-operation shim instead (ENOSPC / EACCES / EROFS / EIO at one
        mkdir / open / write / chmod).  Returns [(sig, case, detail)], or None
        when the combination does not exist."""
        ver, mk, fault = c["version"], c["meta"], c["fault"]
        spell, sur, route, seed = c["spell"], c["surround"], c["route"], \
            c["seed"]
        if not self.env_exists(c):
            return None
        P = 16384
        data = world.content(seed, 0, P + 3)
        data2 = world.content(seed, 1, P + 9)
        cr = os.path.realpath(world.fresh_dir("c19e_"))
        try:
            search = os.path.join(cr, "search")
            mid = os.path.join(cr, "outer", "mid")
            rd = os.path.join(mid, "dest")
            os.makedirs(mid)
            os.mkdir(search)
            if sur != "absent":
                os.mkdir(rd)
            if sur in ("dest-empty", "populated"):
                world.write_file(os.path.join(cr, "outer", "other.txt"),
                                 b"other")
                world.write_file(os.path.join(mid, "sibling.txt"), b"sibling")
            if sur == "populated":
                world.write_file(os.path.join(rd, "keep.txt"), b"keep")
            cwd = None
            if spell == "canon":
                given = rd
            elif spell == "slash":
                given = rd + os.sep
            elif spell == "dslash":
                given = mid + os.sep + os.sep + "dest"
            elif spell == "dot":
                given = os.path.join(mid, ".", "dest")
            elif spell == "dotdot":
                given = os.path.join(cr, "outer", "mid", "..", "mid", "dest")
            elif spell == "link":
                os.symlink(os.path.join(cr, "outer"), os.path.join(cr, "lnk"))
                given = os.path.join(cr, "lnk", "mid", "dest")
            elif spell == "link-final":
                os.symlink(rd, os.path.join(cr, "dlnk"))
                given = os.path.join(cr, "dlnk")
            elif spell == "rel":
                cwd, given = mid, "dest"
            elif spell == "rel-dot":
                cwd, given = mid, os.path.join(".", "dest")
            elif spell == "rel-up":
                cwd, given = search, os.path.join("..", "outer", "mid", "dest")
            elif spell == "cwd":
                cwd, given = rd, "."
            else:
                raise ValueError(spell)
            # where the metafile's one directory ends up below the destination
            stem = {"dir": ("n", "sub"), "dir2": ("n", "a"),
                    "dotname": ("b",), "empty": ("n", "sub"),
                    "single": ()}[mk]
            fname, extra, limit = "f", (), None
            if fault == "long-element":
                # a directory name no filesystem here stores (NAME_MAX 255)
                extra = ("x" * 300,)
            elif fault == "long-path-mkdir":
                # every element is storable, the directory path is too long
                extra = ("y" * 250,) * (PATH_MAX // 251 + 1)
            elif fault == "long-path-open":
                # the parent directory can be made (path of ~4050 bytes), the
                # path of the file itself is longer than PATH_MAX; the
                # candidate of the same name sits at a short path
                fname = "F" * 100
                need = PATH_MAX - 46 - (len(rd) + sum(1 + len(e)
                                                      for e in stem))
                ext = []
                while need >= 2:
                    e = min(250, need - 1)
                    ext.append("y" * e)
                    need -= e + 1
                extra = tuple(ext)
            elif fault.startswith("fsize-"):
                limit = int(fault[6:])
            body = b"" if mk == "empty" else data
            if mk == "dir":
                name, tree = "n", {("sub",) + extra + (fname,): body}
            elif mk == "dir2":
                # the refused entry comes first, a harmless one follows
                name, tree = "n", {("a",) + extra + (fname,): body,
                                   ("z", "g"): data2}
                world.write_file(os.path.join(search, "g"), data2)
            elif mk == "dotname":
                # hostile spellings that stay inside the destination
                name, tree = ".", {("a/../b",) + extra + (fname,): body}
            elif mk == "empty":
                name, tree = "n", {("sub",) + extra + (fname,): body}
                world.write_file(os.path.join(search, "full", fname), data)
            else:
                name, tree = fname, {(): body}
            world.write_file(os.path.join(search, fname), body)
            mp = os.path.join(cr, "m.torrent")
            with open(mp, "wb") as f:
                f.write(self._encode(ver, name, tree, P))
            before = snap_outside(cr, rd)
            shim = None
            with working_dir(cwd), seams.Audit(None) as audit:
                if run is not None:
                    shim = fsshim.FsShim(run, cr, fault_reads=False,
                                         crashes=False)
                    with shim:
                        st, cnt = run_rebuild([mp], [search], given, route)
                else:
                    with fsize_limit(limit):
                        st, cnt = run_rebuild([mp], [search], given, route)
            after = snap_outside(cr, rd)
            res.transitions += 1
            res.evals += 1
            res.states += 1
            res.validated += 1
            ch = sorted(k for k in set(before) | set(after)
                        if before.get(k) != after.get(k))
            bad_ev = events_outside(audit.events, rd)
            prob = None
            if ch:
                prob = "changed-outside-destination"
            elif bad_ev:
                prob = "mutating-event-outside-destination"
            copied = False
            for dirpath, _d, files_ in os.walk(rd):
                if fname in files_ and os.path.getsize(
                        os.path.join(dirpath, fname)) == len(body):
                    copied = True
            what = fault
            vector = None
            if run is not None:
                dev = [lab for ch_, (n_, lab) in zip(run.choices, run.points)
                       if ch_]
                what = "shim-" + (dev[0].split(":")[0] if dev else "no-fault")
                vector = [[ch_, list(pt)] for ch_, pt in
                          zip(run.choices, run.points)]
            res.outcomes[f"env:{what}:{'copied' if copied else 'not-copied'}"
                         f"/{st.split(':')[0]}/{prob or 'ok'}"] += 1
            if fault == "none" and not copied:
                res.extra["env_control_not_copied"] += 1
            if fault not in ("none", "shim") and copied:
                res.extra["env_refusal_did_not_strike"] += 1
            if not prob:
                return []
            refused = "copy-succeeds" if what in ("none", "shim-no-fault") \
                else "copy-refused-by-the-os"
            sig = (f"C19|v{ver}|{prob}|{refused}|destination-" +
                   ("spelled-canonically" if spell == "canon" else
                    "not-spelled-as-its-real-path"))
            case = dict(c, kind="env")
            if vector is not None:
                case["vector"] = vector
            return [(sig, case, {"changed": ch[:5], "events": bad_ev[:4],
                                 "given": given.replace(cr, "<case>"),
                                 "cwd": cwd and cwd.replace(cr, "<case>"),
                                 "rebuild": st, "fault": what,
                                 "shim_fault": shim.fault if shim else None})]
        finally:
            shutil.rmtree(cr, ignore_errors=True)

    def run_env(self, g, res):
        quick = g["tier"] == "quick"
        found = []
        n = 0
        for mk in ENV_META:
            for spell in ENV_SPELL:
                for sur in ENV_SURROUND:
                    for route in ("lib", "cli"):
                        if quick and route == "cli" and sur != "empty":
                            continue
                        c = {"version": g["version"], "meta": mk,
                             "fault": g["fault"], "spell": spell,
                             "surround": sur, "route": route,
                             "seed": g["seed"]}
                        r = self.env_case(c, res)
                        if r is None:
                            continue
                        n += 1
                        found += r
        res.sample({"kind": "env", "version": g["version"],
                    "fault": g["fault"], "cases": n})
        return found

    def run_env_shim(self, g, res):
        """The same worlds with the refusal injected by the FS-operation shim:
        every mkdir / open for writing / raw write / chmod of the rebuild is a
        choice point {proceed, ENOSPC, EACCES, EROFS, EIO, partial write},
        explored to one deviation."""
        quick = g["tier"] == "quick"
        found = []
        runs = 0
        metas = ["dir", "empty", "single"] if quick else ENV_META
        spells = ["canon", "slash", "dotdot", "link", "rel"] if quick \
            else ENV_SPELL
        surs = ["empty", "absent"] if quick else ENV_SURROUND
        for mk in metas:
            for spell in spells:
                for sur in surs:
                    c = {"version": g["version"], "meta": mk, "fault": "shim",
                         "spell": spell, "surround": sur, "route": "lib",
                         "seed": g["seed"]}
                    if not self.env_exists(c):
                        continue
                    ex = e2.Explorer(1, max_runs=5000)
                    for _run, r in ex.explore(
                            lambda run: self.env_case(c, res, run=run)):
                        found += r
                    runs += ex.runs
                    if ex.capped:
                        res.extra["env_shim_capped"] += 1
        res.extra["env_shim_deviation_bound_completed"] = 1
        res.sample({"kind": "env-shim", "version": g["version"],
                    "runs": runs})
        return found

    # ------------------------------- C19: symbolic links in the destination
    @staticmethod
    def _deep(cr, *tail):
        return os.path.join(cr, "o0", "o1", "o2", *tail)

    def link_case(self, c, res):
        """The destination holds dest/top/d/ and, at dest/L, dest/top/L and
        dest/top/d/L, symbolic links of one kind; the metafile's name and path
        elements range over {top, d, L, '..', '.', ''} and candidates named f
        and L verify.  Writing through a link that leads outside is writing
        outside."""
        ver, kind, seed = c["version"], c["link"], c["seed"]
        P = 16384
        data = world.content(seed, 0, P + 3)
        body = b"" if c["empty"] else data
        cr = os.path.realpath(world.fresh_dir("c19l_"))
        try:
            rd = os.path.join(cr, *[f"l{i}" for i in range(6)], "dest")
            os.makedirs(os.path.join(rd, "top", "d"))
            search = os.path.join(cr, "search")
            for n_ in ("f", "L"):
                world.write_file(os.path.join(search, n_), data)
                world.write_file(os.path.join(search, "empty", n_), b"")
            spots = [os.path.join(rd, "L"), os.path.join(rd, "top", "L"),
                     os.path.join(rd, "top", "d", "L")]
            for i, lp in enumerate(spots):
                out = self._deep(cr, f"out{i}")
                if kind in ("dir-out", "dir-out-2hop"):
                    for rel in (("f",), ("L",), ("d", "f"), ("d", "L")):
                        world.write_file(os.path.join(out, *rel), b"vic")
                    if kind == "dir-out":
                        os.symlink(out, lp)
                    else:
                        hop = os.path.join(rd, f"hop{i}")
                        os.symlink(out, hop)
                        os.symlink(hop, lp)
                elif kind in ("file-out-short", "file-out-long"):
                    world.write_file(os.path.join(out, "victim"),
                                     b"vic" if kind == "file-out-short"
                                     else data + b"longer")
                    os.symlink(os.path.join(out, "victim"), lp)
                elif kind == "dangling-out":
                    if i % 2 == 0:
                        os.makedirs(out)
                        os.symlink(os.path.join(out, "nothing"), lp)
                    else:
                        os.makedirs(self._deep(cr), exist_ok=True)
                        os.symlink(self._deep(cr, f"noparent{i}", "nothing"),
                                   lp)
                elif kind == "dir-up":
                    os.symlink("..", lp)
                elif kind == "dir-in":
                    os.symlink(os.path.join(rd, "top", "d"), lp)
                elif kind == "loop":
                    os.symlink("L", lp)
                else:
                    raise ValueError(kind)
            if c["single"]:
                tree = {(): body}
            else:
                tree = {tuple(c["seq"]) + (c["last"],): body}
            mp = os.path.join(cr, "m.torrent")
            with open(mp, "wb") as f:
                f.write(self._encode(ver, c["name"], tree, P))
            before = snap_outside(cr, rd)
            inside_before = world.snapshot(rd)
            with seams.Audit(None) as audit:
                st, cnt = run_rebuild([mp], [search], rd,
                                      c.get("route") or "lib")
            after = snap_outside(cr, rd)
            res.transitions += 1
            res.evals += 1
            res.states += 1
            res.validated += 1
            ch = sorted(k for k in set(before) | set(after)
                        if before.get(k) != after.get(k))
            bad_ev = events_outside(audit.events, rd)
            prob = None
            if ch:
                prob = "changed-outside-destination"
            elif bad_ev:
                prob = "mutating-event-outside-destination"
            wrote = world.snapshot(rd) != inside_before
            res.outcomes[f"links:{kind}:{'wrote-inside' if wrote else 'wrote-nothing'}"
                         f"/{st.split(':')[0]}/{prob or 'ok'}"] += 1
            if not prob:
                return []
            sig = (f"C19|v{ver}|{prob}|symlink-in-destination:{kind}" +
                   ("+empty-file" if c["empty"] else ""))
            return [(sig, dict(c, kind="links"),
                     {"changed": ch[:5], "events": bad_ev[:4],
                      "rebuild": st})]
        finally:
            shutil.rmtree(cr, ignore_errors=True)

    @staticmethod
    def link_paths(quick):
        names = ["top", "L", "."] if quick else ["top", "L", ".", ""]
        alpha = ["d", "L", ".."] if quick else ["d", "L", "..", ".", ""]
        seqs = [()] + [(a,) for a in alpha] + list(
            itertools.product(alpha, repeat=2))
        out = []
        for name in names:
            for seq in seqs:
                for last in ("f", "L"):
                    out.append((name, seq, last, False))
        out += [("L", (), None, True), ("f", (), None, True)]
        return out

    def run_links(self, g, res):
        found = []
        n = 0
        routes = ("lib",) if g["tier"] == "quick" else ("lib", "cli")
        for name, seq, last, single in self.link_paths(g["tier"] == "quick"):
            for empty in (False, True):
                for route in routes:
                    found += self.link_case(
                        {"version": g["version"], "link": g["link"],
                         "name": name, "seq": list(seq), "last": last,
                         "single": single, "empty": empty, "route": route,
                         "seed": g["seed"]}, res)
                    n += 1
        res.sample({"kind": "links", "version": g["version"],
                    "link": g["link"], "cases": n})
        return found

    def target_case(self, c, res):
        """Something already sits at the very path an entry is to be written
        to (inside the destination): a directory holding a symbolic link that
        is named like the candidate, or a symbolic link, each leading to a
        file / nothing / a directory outside the destination."""
        ver, tk, seed = c["version"], c["target"], c["seed"]
        P = 16384
        data = world.content(seed, 0, P + 3)
        body = b"" if c["empty"] else data
        cr = os.path.realpath(world.fresh_dir("c19t_"))
        try:
            rd = os.path.join(cr, *[f"l{i}" for i in range(6)], "dest")
            os.makedirs(rd)
            parts = [c["name"]] + ([] if c["single"] else
                                   list(c["seq"]) + ["f"])
            rt = os.path.realpath(os.path.join(rd, *parts))
            if not rt.startswith(rd + os.sep):
                return None     # the entry does not point into the destination
            search = os.path.join(cr, "search")
            world.write_file(os.path.join(search, "f"), data)
            world.write_file(os.path.join(search, "empty", "f"), b"")
            out = self._deep(cr, "out")
            os.makedirs(out)
            to = tk.split("link-")[1]
            if to.startswith("file"):
                tgt = os.path.join(out, "victim")
                world.write_file(tgt, data + b"longer" if to == "file-long"
                                 else b"vic")
            elif to == "dangling":
                tgt = os.path.join(out, "nothing")
            else:
                tgt = os.path.join(out, "dir")
                world.write_file(os.path.join(tgt, "f"), b"vic")
            if tk.startswith("dir+"):
                os.makedirs(rt)
                os.symlink(tgt, os.path.join(rt, "f"))
            else:
                os.makedirs(os.path.dirname(rt), exist_ok=True)
                os.symlink(tgt, rt)
            tree = {(): body} if c["single"] else \
                {tuple(c["seq"]) + ("f",): body}
            mp = os.path.join(cr, "m.torrent")
            with open(mp, "wb") as f:
                f.write(self._encode(ver, c["name"], tree, P))
            before = snap_outside(cr, rd)
            with seams.Audit(None) as audit:
                st, cnt = run_rebuild([mp], [search], rd,
                                      c.get("route") or "lib")
            after = snap_outside(cr, rd)
            res.transitions += 1
            res.evals += 1
            res.states += 1
            res.validated += 1
            ch = sorted(k for k in set(before) | set(after)
                        if before.get(k) != after.get(k))
            bad_ev = events_outside(audit.events, rd)
            prob = None
            if ch:
                prob = "changed-outside-destination"
            elif bad_ev:
                prob = "mutating-event-outside-destination"
            res.outcomes[f"target:{tk}/{st.split(':')[0]}/{prob or 'ok'}"] += 1
            if not prob:
                return []
            sig = (f"C19|v{ver}|{prob}|at-the-target-path:{tk}" +
                   ("+empty-file" if c["empty"] else ""))
            return [(sig, dict(c, kind="target-pre"),
                     {"changed": ch[:5], "events": bad_ev[:4],
                      "rebuild": st,
                      "target": rt.replace(cr, "<case>")})]
        finally:
            shutil.rmtree(cr, ignore_errors=True)

    def run_target_pre(self, g, res):
        found = []
        n = 0
        alpha = ["d", "..", "."]
        seqs = [()] + [(a,) for a in alpha] + list(
            itertools.product(alpha, repeat=2))
        paths = [(name, seq, False) for name in ("top", ".")
                 for seq in seqs] + [("f", (), True)]
        routes = ("lib",) if g["tier"] == "quick" else ("lib", "cli")
        for tk in TARGET_KINDS:
            for name, seq, single in paths:
                for empty in (False, True):
                    for route in routes:
                        r = self.target_case(
                            {"version": g["version"], "target": tk,
                             "name": name, "seq": list(seq),
                             "single": single, "empty": empty,
                             "route": route, "seed": g["seed"]}, res)
                        if r is None:
                            res.extra["target_cases_pointing_outside"] += 1
                            continue
                        n += 1
                        found += r
        res.sample({"kind": "target-pre", "version": g["version"],
                    "cases": n})
        return found

    # ------------------------------------------------------------ driver
    def run_group(self, g):
        res = core.Result()
        seed = g["seed"]
        if g["kind"] in ("env", "env-shim", "links", "target-pre", "forms",
                         "live", "pathnames"):
            fn = {"env": self.run_env, "env-shim": self.run_env_shim,
                  "links": self.run_links,
                  "target-pre": self.run_target_pre,
                  "forms": self.run_forms, "live": self.run_live,
                  "pathnames": self.run_pathnames}[g["kind"]]
            for sig, case, d in fn(g, res):
                res.violation(sig, case, d)
            return res
        if g["kind"] == "hostile-rel":
            for sig, case, d in self.run_hostile_rel(g, res):
                res.violation(sig, case, d)
            return res
        if g["kind"] == "hostile":
            for sig, case, d in self.run_hostile(g, res):
                res.violation(sig, case, d)
            return res
        if g["kind"] == "prestate":
            for sig, case, d in self.run_prestate(g, res):
                res.violation(sig, case, d)
            res.sample({"kind": "prestate", "family": g["family"],
                        "shape": g["shape"]})
            return res
        if g["kind"] == "batch":
            for sig, case, d in self.run_batch(g, res):
                res.violation(sig, case, d)
            return res
        if g["kind"] == "metadest":
            for sig, case, d in self.run_metadest(g, res):
                res.violation(sig, case, d)
            res.sample({"kind": "metadest", "family": g["family"]})
            return res
        confirmed = {}
        if g["kind"] == "lit":
            for sh, sizes, cids in g["worlds"]:
                w = {"scale": "R", "B": g["B"], "P": g["P"], "shape": sh,
                     "sizes": sizes, "cids": cids}
                for sig, case, d in self.c13_world(w, seed, res,
                                                   scatters=["orig", "deep"]):
                    res.violation(sig, case, d)
                res.sample({"world": w})
            return res
        if g["kind"] == "names":
            P = g["P"]
            sh = f"LN{g['nbytes']}{g['enc']}"
            worlds = [{"scale": "R", "B": REAL_B, "P": P, "shape": sh,
                       "sizes": sizes}
                      for sizes in ([P + 1, 7, 5], [0, 2 * P, 1], [5, 0, P])]
            # the long name as the name of a single-file torrent
            worlds += [{"scale": "R", "B": REAL_B, "P": P, "shape": "S1",
                        "sizes": sizes,
                        "rootname": world.long_root_name(g["nbytes"],
                                                         g["enc"])}
                       for sizes in ([P + 5], [7])]
            for w in worlds:
                for sig, case, d in self.c13_world(
                        w, seed, res, scatters=["orig", "deep", "split"],
                        decoys=["none", "decoy", "pad"]):
                    res.violation(sig, case, d)
                res.sample({"world": w})
            return res
        if g["kind"] == "many":
            w = {"scale": "R", "B": REAL_B, "P": g["P"], "shape": g["shape"],
                 "sizes": g["sizes"]}
            # (no same-named decoys: the v1 matcher tries every combination
            # of candidates of the files of one piece)
            for sig, case, d in self.c13_world(
                    w, seed, res, scatters=["orig", "flat"],
                    decoys=["none"] if g["tier"] == "quick"
                    else ["none", "unrelated"]):
                res.violation(sig, case, d)
            res.sample({"world": {"shape": g["shape"], "P": g["P"],
                                  "sizes": g["sizes"][:8] + ["..."]}})
            return res
        if g["kind"] == "dup":
            allsizes = g["sizes"]
        else:
            allsizes = e1.iter_sizes(g["shape"], g["alpha"], g["first"])
        for sizes in allsizes:
            if sum(sizes) == 0:
                continue
            quick = g["tier"] == "quick"
            if g["kind"] == "dup":
                w = {"scale": g["scale"], "B": g["B"], "P": g["P"],
                     "shape": "D3x", "sizes": sizes, "cids": [0, 0, 2]}
                scat = ["dedup", "orig"]
            else:
                w = {"scale": g["scale"], "B": g["B"], "P": g["P"],
                     "shape": g["shape"], "sizes": sizes}
                scat = SCATTER if not quick or world.nfiles(g["shape"]) <= 2 \
                    else ["orig", "deep"]
            found = self.c13_world(w, seed, res, scatters=scat)
            res.sample({"world": w})
            if g["scale"] == "R":
                for sig, case, d in found:
                    res.violation(sig, case, d)
                continue
            for sig, case, d in found:
                if confirmed.get(sig, 0) >= 2:
                    res.extra["S_disagreements_not_replayed_over_cap"] += 1
                    continue
                confirmed[sig] = confirmed.get(sig, 0) + 1
                rw = e1.world_to_real(w)
                rfound = self.c13_world(rw, seed, res, [case["family"]],
                                        [case["scatter"]], [case["decoy"]],
                                        [case["listing"]])
                res.conformance += 1
                if not rfound:
                    res.extra["S_R_vector_mismatch"] += 1
                    res.notes.add("scaled model void for a case: " +
                                  repr((sig, w))[:200])
                for rsig, rcase, rd in rfound:
                    res.violation(rsig, rcase, rd)
        return res

    def replay(self, case):
        res = core.Result()
        kind = case.get("kind", "world")
        if kind == "hostile-rel":
            found = [f for f in self.run_hostile_rel(
                {"seed": case["seed"], "version": case["version"]}, res)
                if all(f[1].get(k) == case.get(k) for k in
                       ("hostile", "first", "first_dest", "route"))]
        elif kind == "hostile":
            found = [f for f in self.run_hostile(
                {"seed": case["seed"], "version": case["version"],
                 "ni": case["ni"], "route": case.get("route"),
                 "subset": case.get("subset")}, res)
                if f[1]["seq"] == case["seq"] and f[1]["last"] == case["last"]
                and f[1]["single"] == case["single"]
                and f[1].get("empty") == case.get("empty")
                and f[1].get("link") == case.get("link")
                and f[1].get("victims") == case.get("victims")
                and f[1].get("benign_first") == case.get("benign_first")]
        elif kind == "env":
            run = None
            if case.get("vector") is not None:
                run = e2.Run([(ch, tuple(pt)) for ch, pt in case["vector"]])
            found = self.env_case(
                {k: case[k] for k in ("version", "meta", "fault", "spell",
                                      "surround", "route", "seed")},
                res, run=run) or []
        elif kind == "links":
            found = self.link_case(
                {k: case.get(k) for k in ("version", "link", "name", "seq",
                                          "last", "single", "empty", "route",
                                          "seed")}, res)
        elif kind == "target-pre":
            found = self.target_case(
                {k: case.get(k) for k in ("version", "target", "name", "seq",
                                          "single", "empty", "route",
                                          "seed")}, res) or []
        elif kind == "form":
            found = self.form_case(
                {k: case[k] for k in ("world", "family", "form", "seed")},
                res)
        elif kind == "live":
            sb, torrents = self.live_setup(case["fams"], case["seed"])
            try:
                found = self.live_case(
                    sb, torrents, {k: case[k] for k in
                                   ("fams", "order", "lists", "seed")},
                    res, "replay")
            finally:
                shutil.rmtree(sb, ignore_errors=True)
        elif kind == "pathname":
            found = self.pathname_case(
                {k: case.get(k) for k in ("version", "role", "pname", "spell",
                                          "route", "env", "seed")}, res)
        elif kind == "prestate":
            w = case["world"]
            files = world.files_of(w, case["seed"])
            found = self.c14_history(w, files, dict(files), case["family"],
                                     tuple(case["pre"]), case["decoy"],
                                     case["seed"], res, case.get("quick", True),
                                     case.get("listing", "sorted"))
        elif kind == "batch":
            found = self.run_batch({"seed": case["seed"]}, res)
        elif kind == "metadest":
            found = self.c14_metadest(case["family"], case["layout"],
                                      case["size"], case["where"],
                                      case["seed"], res,
                                      case.get("quick", True),
                                      hist=case.get("hist"))
        else:
            found = self.c13_world(case["world"], case["seed"], res,
                                   [case["family"]], [case["scatter"]],
                                   [case["decoy"]], [case["listing"]])
        return [{"sig": s, "detail": d} for s, c, d in found]


def make(pid):
    return RebuildCheck(pid)
