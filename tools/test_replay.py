"""Plain unit test that replays one violation file without the explorer:

    VERIF_REPLAY=/verif/replays/C01/<sha>.json /venv/bin/python -m pytest -q tools/test_replay.py

The test fails (with the violation's detail) iff the recorded case still
violates its property on /repo's working tree."""
import json
import os
import sys

HERE = os.path.dirname(os.path.dirname(os.path.abspath(__file__)))
sys.path.insert(0, HERE)


def test_replay():
    path = os.environ.get("VERIF_REPLAY")
    if not path:
        import pytest
        pytest.skip("set VERIF_REPLAY=<replay file>")
    from mc import core
    from mc.main import registry
    body = json.load(open(path))
    check = registry()[body["property"]]()
    violations = check.replay(core.unjson(body["case"]))
    assert not violations, json.dumps(core.jsonable(violations))[:2000]
