#!/bin/sh
# tools/intake_seed.sh <sid> <slug> <ID>...  : copy /tmp/wt/<sid>/_seed to seeded/<sid>-<slug>, validate, run the named quick checks
sid="$1"; slug="$2"; shift 2
HERE="$(cd "$(dirname "$0")/.." && pwd)"
d="$HERE/seeded/$sid-$slug"
mkdir -p "$d"
cp /tmp/wt/$sid/_seed/patch.diff /tmp/wt/$sid/_seed/demo.py /tmp/wt/$sid/_seed/notes.md "$d/" || exit 2
"$HERE/tools/validate_seed.sh" "$d" "$@" 2>&1 | tee "$d/.validate.log"
