#!/usr/bin/env python3
"""Regenerate /verif/MANIFEST.json from the table below (keeps it valid)."""
import json
import os
import subprocess
import sys

HERE = os.path.dirname(os.path.dirname(os.path.abspath(__file__)))
sys.path.insert(0, HERE)

BASELINE = ("cd /repo && /venv/bin/python -m pytest -ra -q -p no:cacheprovider "
            "--timeout=900 --continue-on-collection-errors")

# id -> (engine, technique, level text, note, design ref)
CLAIMS = {}


def claim(pid, engine, technique, text, note, ref):
    CLAIMS[pid] = (engine, technique, text, note, ref)


E1 = ("bounded-exhaustive enumeration of executions of the real code over "
      "worlds (shape x sizes x piece length), at real scale on the boundary "
      "alphabet and in a scaled instantiation (BLOCK_SIZE=2) over every byte "
      "size, each judged against an independent BEP reference model; S worlds "
      "conformance-replayed at real scale")

claim("C01", "E1", "explicit enumeration of input worlds, real code executed "
      "per world, reference-model oracle; scaled model + conformance replay",
      E1, "reference BEP 3 model; sizes/trees within the stated bounds", "4/C01")
claim("C02", "E1", "explicit enumeration of input worlds, two-formulation "
      "BEP 52 reference model; scaled model + conformance replay",
      E1, "reference BEP 52 model (two formulations cross-checked)", "4/C02")
claim("C03", "E1", "explicit enumeration of input worlds, reference-model "
      "oracle on the decoded hybrid metafile; scaled model + conformance replay",
      E1, "reference BEP 3/47/52 models", "4/C03")
claim("C10", "E1", "explicit enumeration of input worlds; differential oracle "
      "between creators and between hashers",
      E1, "differential: no reference needed beyond canonical encoding", "4/C10")
claim("C15", "E1", "explicit enumeration of input worlds, BEP 47 reference "
      "walk over the decoded file list; scaled model + conformance replay",
      E1, "reference BEP 3/47 model", "4/C15")
REC = ("bounded-exhaustive enumeration of (world, metafile family, content "
       "path, damage set) with every flip offset / truncation length / "
       "removal in the scaled instantiation and a boundary sample at real "
       "scale; each Checker run compared with the reference recheck model")
for pid in ("C04", "C05", "C16"):
    claim(pid, "E1", "explicit enumeration of worlds x metafile families x "
          "damage sets on the real code; reference recheck model; scaled "
          "model with every S disagreement confirmed at real scale",
          REC, "reference recheck model; damage sets of size <=1 (quick) / 2 "
          "(thorough)", "4/C04-C05-C16")

BFS = ("explicit-state breadth-first search over edit histories to a fixpoint; "
       "state = metafile bytes, transition = one real edit (library or CLI) "
       "on a copy of the state file")
claim("C06", "E3", "explicit-state BFS over edit histories (state = file "
      "bytes) + exhaustive creator x option-subset x listing-order sweep; "
      "strict canonical-bencode reference decoder as oracle",
      BFS + "; every reached state and every created metafile is decoded by a "
      "strict canonical-only reference decoder and checked structurally",
      "reference strict decoder; finite value alphabet per field", "4/C06")
claim("C07", "E3", "explicit-state BFS over edit histories to a fixpoint; "
      "span-preserving reference decoder + reference edit model per transition",
      BFS + "; per transition every unnamed key must keep its raw byte span, "
      "named keys must have the model value, tracker-only edits must keep the "
      "raw info span; CLI flag orders enumerated exhaustively for <=3 flags",
      "finite value alphabet; canonical initial metafiles", "4/C07")
claim("C17", "E2", "stateless deviation-bounded exploration of fault and "
      "crash points at every filesystem operation of the real edit "
      "(FS-operation shim, crash = snapshot from the OS)",
      "every choice vector with <=2 injected faults "
      "over the filesystem operations the real edit performs: crash before "
      "each operation, errno failures, partial / short raw writes; verdict on "
      "the metafile path at the crash snapshot or after the error",
      "Python-visible operations; no power-loss reordering; audit hook "
      "proves the seams own every mutating OS event of the fault-free run",
      "4/C17")
claim("C08", "E2", "stateless choice-point exploration: configuration axes "
      "with deviation bound, full product of directory-listing permutations "
      "at every os.listdir/scandir call",
      "every choice vector within the bound executed on the real creators, "
      "each on a fresh copy of the payload; info bytes compared with the "
      "default run and name with the real base name",
      "two payloads; axes alphabets as listed in the evidence", "4/C08")
claim("C09", "E3", "explicit-state BFS over operation histories, each "
      "re-executed in a fresh fork of a pristine process image; differential "
      "oracle against a pristine process on the same filesystem state",
      "all histories up to depth 3 (quick) / 5 (thorough) over 22 operations, "
      "deduplicated on (canonical sandbox, introspective process-state scan); "
      "the last operation's observable is compared with the same operation "
      "in a pristine fork, cross-validated against a brand-new interpreter",
      "owned clock; observables are path-free", "4/C09")
claim("C11", "E1", "exhaustive product of metafile key sets x string "
      "alphabet x version requests on the real magnet(); reference magnet "
      "model from the raw info span",
      "full product of versions x announce forms x url-list forms x unknown "
      "keys x every string of length <=2 (thorough 3) over a URL-significant "
      "alphabet x version requests x route; URI parsed with urllib and "
      "compared with the model", "UTF-8 names and URLs", "4/C11")
claim("C12", "E1", "exhaustive enumeration of integer intervals and "
      "structured families through validator, creator, CLI and config file; "
      "arithmetic specification as oracle",
      "every integer -1024..2^24 (thorough 2^28), m*2^k and 2^k+-d families, "
      "string catalogue, end-to-end routes; automatic choice on every size "
      "<= 2^20 (2^22) and c*2^e+d families, monotone along the domain",
      "integers beyond the interval only on the structured families", "4/C12")
RB = ("bounded-exhaustive enumeration of rebuild executions of the real code: "
      "worlds x metafile families x scatterings x decoys x listing orders "
      "(+ batches in every listing order of the metafile directory)")
claim("C13", "E1", "explicit enumeration of worlds x families x scatterings x "
      "decoys x listing orders on the real Assembler; reference layout "
      "oracle; scaled model with R confirmation",
      RB + "; destination compared byte for byte with the reference layout",
      "intact copies present under the same file names", "4/C13")
claim("C14", "E3", "explicit enumeration of destination pre-state vectors x "
      "rebuild histories on the real code; snapshot + audit-hook invariants "
      "on every transition",
      "every vector of per-file destination pre-states x decoys x a history "
      "of 3 (thorough 4) rebuilds; invariants: sources and metafiles "
      "unchanged, full-length destination files untouched, every written "
      "file is a verified candidate copy at an assigned path, no "
      "all-different decoy placed, no low-level mutating event outside the "
      "destination", "small world catalogue at real scale", "4/C14")
claim("C19", "E1", "exhaustive product of hostile name / path-element "
      "sequences x version on the real rebuild; snapshot + audit hook oracle",
      "every sequence of <=2 hostile elements (+ final element) x hostile "
      "names x v1/v2/hybrid with a matching candidate present; nothing "
      "outside the destination may be created, changed or deleted",
      "escapes are kept inside the sandbox by construction (destination 20 "
      "levels deep; > 20 '..' skipped)", "4/C19")
claim("C18", "E2", "exhaustive product of configuration axes (command "
      "spellings, flags, sandbox states) on the real commands; before/after "
      "snapshot + audit hook of C-level filesystem events",
      "all read-only command spellings x -q/-v x content root/parent x "
      "payload intact/damaged/missing x versions; create heads x out forms x "
      "progress x magnet x option sets; rename variants; oracle = snapshot "
      "difference and audited creation/deletion events",
      "sandbox contains the files a buggy probe would hit ('.torrent')",
      "4/C18")
claim("C20", "E2", "exhaustive product of option subsets/values x version x "
      "align x out through three routes + all CLI argument orders for small "
      "subsets; differential oracle + documented field placement",
      "288 option combinations x 4 version/align x 2 out forms, each through "
      "keywords, CLI flags and config file; every permutation and content "
      "path position for <=3 flags", "one payload; small value alphabet",
      "4/C20")


_ENV = ("; process-environment axis: a sub-catalogue of the operations under "
        "every member of envrun.ENVS (an operation may refuse, but must not "
        "leave a wrong artefact or report a wrong number)")
EXTRA = {
    "C01": "; also: hard-linked and sparse payload files, one E2 fault per "
           "create (open / read incl. raw short reads / listdir / progress "
           "write), host callbacks and progress trackers, every schedule of "
           "two interleaved / re-entrant hasher iterators" + _ENV,
    "C02": "; also: hard-linked and sparse payload files, symbolic links "
           "inside the content (consistent policy), one E2 fault per create, "
           "host callbacks and progress trackers, interleaved hasher "
           "iterators" + _ENV,
    "C03": "; also: hard-linked and sparse payload files, symbolic links "
           "inside the content, one E2 fault per create, host callbacks and "
           "progress trackers, interleaved hasher iterators" + _ENV,
    "C10": "; also: hard-linked and sparse payload files, host callbacks and "
           "progress trackers, every schedule of two interleaved / re-entrant "
           "hasher iterators of each class" + _ENV,
    "C15": "; also: automatic piece length over > 1000 files, output inside "
           "the content created twice, interleaved hasher iterators" + _ENV,
    "C04": "; also: environment forms of the content (path spellings incl. "
           "through symlinks, symlinked sub-directory, pruned directories, "
           "sparse storage, below PATH_MAX-long paths), zero-region contents, "
           "kept Checker objects (made while incomplete, abandoned walks)"
           + _ENV,
    "C05": "; also: text-like digest witness contents, environment forms of "
           "the content, zero-region contents, kept Checker objects" + _ENV,
    "C16": "; also: environment forms of the content, zero-region contents "
           "(one family of known findings), kept Checker objects" + _ENV,
    "C06": "; also: payload names that are not valid UTF-8 (refuse or write "
           "canonically)" + _ENV,
    "C07": "; also: bases with same-named keys in the other dictionary, "
           "state-derived overlap probes, debug-logging routes, a request "
           "object re-used across files, commands.edit(Namespace)",
    "C08": "; also: dense original vs sparse copy, payload reached through "
           "symbolic links" + _ENV,
    "C09": "; also: pattern families failed / cli / magnet / keep (kept "
           "creator objects re-assembled after the payload changed)",
    "C11": "; also: info-level keys named like the top-level fields, 13 "
           "calling styles of magnet",
    "C12": "; also: digit strings / integers beyond Python's conversion "
           "limit, what already lies at the output path for the automatic "
           "choice" + _ENV,
    "C13": "; also: names of 241-255 bytes, pieces spanning > 1000 files, "
           "text-like digest witnesses, library forms (contents list mutated "
           "after construction, drivers), every interleaving of construct / "
           "run for two and three live Assemblers, path names containing "
           "$VAR / ~",
    "C14": "; also: pad-named decoys, a directory at a target path, the "
           "metafile inside the destination, path names containing $VAR / ~"
           + _ENV,
    "C17": "; also: metafile names of 250 / 255 bytes, taken temporary names, "
           "bytes and pathlib metafile paths, boolean values",
    "C18": "; also: symlink / hard-link aliases in rename, temp-named "
           "bystanders at every output location, dangling-link output paths"
           + _ENV,
    "C19": "; also: OS-refused copies x 11 destination spellings x "
           "surroundings (incl. under the FS-operation shim, bound 1), symlink "
           "pre-states, four drivers, path names containing $VAR / ~",
    "C20": "; also: whole-value classes (boolean words, percent forms, "
           "@-prefix), every option name as a config key, int / str "
           "meta_version" + _ENV,
}


def registered():
    out = subprocess.run(
        ["/venv/bin/python", "-c",
         "from mc.main import registry; print(' '.join(sorted(registry())))"],
        cwd=HERE, capture_output=True, text=True,
        env=dict(os.environ, PYTHONPATH=HERE))
    return out.stdout.split()


def main():
    props = [json.loads(l) for l in open(os.path.join(HERE, "properties.jsonl"))]
    reg = set(registered())
    checks = []
    na = []
    for p in props:
        pid = p["id"]
        if pid in CLAIMS and pid in reg:
            engine, tech, text, note, ref = CLAIMS[pid]
            text = text + EXTRA.get(pid, "")
            checks.append({
                "property_id": pid,
                "quick_cmd": f"bin/check {pid} --tier quick",
                "thorough_cmd": f"bin/check {pid} --tier thorough",
                "evidence_file": f"/verif/evidence/{pid}.json",
                "replay_cmd_template": f"bin/check {pid} --replay {{path}}",
                "engine": engine,
                "level_claimed": {"category": "model_checking", "text": text,
                                  "design_ref": "DESIGN.md section " + ref},
                "level_note": note,
                "technique": tech,
            })
        else:
            na.append({"property_id": pid,
                       "reason": "check not built yet in this tree (work in "
                                 "progress; see DESIGN.md section 4)"})
    man = {
        "version": 1,
        "setup_cmd": "true",
        "hooks": {
            "guard": "TORRENTFILE_VERIF",
            "enable": "no source hooks: every seam is installed from the "
                      "harness by rebinding module attributes",
            "baseline_off_cmd": BASELINE,
            "source_commits": [],
            "add_only": True,
        },
        "engines": [
            {"name": "E1", "path": "mc/e1.py",
             "serves_properties": ["C01", "C02", "C03", "C04", "C05", "C10",
                                   "C13", "C14", "C15", "C16"],
             "kind_free_text": "bounded-exhaustive world enumeration on the "
                               "real code, real scale + scaled instantiation "
                               "with conformance replay"},
            {"name": "E2", "path": "mc/e2.py",
             "serves_properties": ["C08", "C17", "C18", "C19", "C20"],
             "kind_free_text": "deviation-bounded choice-point explorer "
                               "(environment answers, faults, crash points)"},
            {"name": "E3", "path": "mc/checks/history.py",
             "serves_properties": ["C06", "C07", "C09", "C14"],
             "kind_free_text": "explicit-state BFS over operation histories "
                               "re-executed on the real code (the search "
                               "loops live in mc/checks/history.py, "
                               "mc/checks/editfam.py and mc/checks/rebuild.py; "
                               "mc/zygote.py is the pristine fork server)"},
            {"name": "E4", "path": "mc/envrun.py",
             "serves_properties": ["C01", "C02", "C03", "C04", "C05", "C06",
                                   "C08", "C10", "C12", "C14", "C15", "C16",
                                   "C18", "C20"],
             "kind_free_text": "process-environment axis: every operation of a "
                               "check's sub-catalogue executed in a child "
                               "interpreter under every member of a named "
                               "alphabet of environments (terminal widths, "
                               "python -O, filesystem / locale encodings, dead "
                               "stdout, removed cwd, ...), judged by the "
                               "check's own oracle"},
        ],
        "checks": checks,
        "not_applicable": na,
        "notes": "All checks: python (/venv/bin/python) importing torrentfile "
                 "from /repo's working tree; no build step; scratch under "
                 "/dev/shm; exit 0/1/2 = held / violation / machinery broken.",
    }
    with open(os.path.join(HERE, "MANIFEST.json"), "w") as f:
        json.dump(man, f, indent=1)
    print(f"claimed {len(checks)}, not claimed {len(na)}")


if __name__ == "__main__":
    main()
