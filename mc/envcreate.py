"""Creates and hasher runs in a child interpreter under a named process
environment (mc.envrun).  The parent builds the payload and the list of
operations, the child executes every operation of the list on the real code
and hands back what each left behind (outcome + the bytes of the metafile, or
the hasher attributes); all judging happens in the parent, so the oracle never
runs under the perturbed environment.

Every path travels as bytes (hex) and is turned into the child's own `str`
form with os.fsdecode, the way sys.argv reaches a real program: under an ASCII
filesystem encoding a non-ASCII name arrives surrogate-escaped.
"""
import json
import os

from mc import envrun, world

_BODY = r'''
import json, os, sys
SPEC = json.loads(%(spec)r)
import torrentfile
import torrentfile.cli
from torrentfile import torrent as _T, hasher as _H, mixins as _M


def _p(x):
    return os.fsdecode(bytes.fromhex(x))


_CRE = {
    "TorrentFile": lambda **kw: _T.TorrentFile(**kw),
    "TorrentFileV2": lambda **kw: _T.TorrentFileV2(**kw),
    "TorrentFileHybrid": lambda **kw: _T.TorrentFileHybrid(**kw),
    "Assembler2": lambda **kw: _T.TorrentAssembler(meta_version="2", **kw),
    "Assembler3": lambda **kw: _T.TorrentAssembler(meta_version="3", **kw),
}


def _bar(mode, path):
    if mode == 2:
        return _M.ProgressBar.new(os.path.getsize(path), path)
    if mode == 0:
        return _M.ProgMixin.NoProg()
    return None


def _hashers(path, P, mode):
    out = {}
    for name in ("HasherV2", "HasherHybrid", "FileHasher0", "FileHasher1"):
        rec = {}
        try:
            if name == "HasherV2":
                h = _H.HasherV2(path, P, progress=mode,
                                progress_bar=_bar(mode, path))
            elif name == "HasherHybrid":
                h = _H.HasherHybrid(path, P, progress=mode,
                                    progress_bar=_bar(mode, path))
            else:
                h = _H.FileHasher(path, P, progress=mode,
                                  hybrid=name.endswith("1"),
                                  progress_bar=_bar(mode, path))
                rec["iter"] = [list(x) if isinstance(x, tuple) else x
                               for x in h]
            rec["root"] = h.root
            rec["layer"] = h.piece_layer
            if name != "HasherV2" and name != "FileHasher0":
                rec["pieces"] = list(h.pieces)
                rec["padding"] = h.padding_file
            rec["outcome"] = "returned"
        except BaseException as e:  # noqa
            rec = {"outcome": "raised:" + type(e).__name__,
                   "msg": str(e)[:200]}
        out[name] = rec
    return out


def _rewind_stdout():
    # a stdout that is a regular file starts every operation empty, so that
    # a file-size limit strikes part way through each operation's output
    try:
        import stat
        if stat.S_ISREG(os.fstat(1).st_mode):
            os.ftruncate(1, 0)
            os.lseek(1, 0, 0)
    except OSError:
        pass


OBS = []
for op in SPEC["ops"]:
    rec = {"id": op["id"]}
    _rewind_stdout()
    try:
        if op["route"] == "hashers":
            rec["hashers"] = _hashers(_p(op["path"]), op["P"],
                                      op["progress"])
            OBS.append(rec)
            continue
        of = _p(op["outfile"])
        if op["route"] == "cli":
            argv = [a if isinstance(a, str) else _p(a["hex"])
                    for a in op["argv"]]
            torrentfile.cli.execute(argv)
        else:
            kw = dict(op.get("kw") or {})
            t = _CRE[op["creator"]](path=_p(op["path"]),
                                    piece_length=op["P"], outfile=of,
                                    progress=op["progress"], **kw)
            t.write()
        rec["outcome"] = "returned"
    except BaseException as e:  # noqa
        rec["outcome"] = "raised:" + type(e).__name__
        rec["msg"] = str(e)[:200]
    try:
        with open(_p(op["outfile"]), "rb") as f:
            rec["raw"] = f.read()
    except OSError:
        pass
    OBS.append(rec)
'''


def hexpath(p):
    return os.fsencode(p).hex()


def lib_op(opid, creator, path, outfile, P, progress, kw=None):
    return {"id": opid, "route": "lib", "creator": creator,
            "path": hexpath(path), "outfile": hexpath(outfile), "P": P,
            "progress": progress, "kw": kw or {}}


def cli_op(opid, argv, outfile):
    """argv items that are paths are given as {"hex": ...}."""
    return {"id": opid, "route": "cli", "argv": argv,
            "outfile": hexpath(outfile)}


def hashers_op(opid, path, P, progress):
    return {"id": opid, "route": "hashers", "path": hexpath(path), "P": P,
            "progress": progress}


def run_ops(envname, ops, timeout=600):
    """Execute ops in one child under ENVS[envname]; returns (records by op
    id, the raw envrun report).  An operation the child never reached (the
    child died) has no record."""
    body = _BODY % {"spec": json.dumps({"ops": ops})}
    cwd = world.fresh_dir("envcwd_")
    rep = envrun.run(envname, body, cwd=cwd, timeout=timeout)
    recs = {}
    for r in (rep.get("obs") or []):
        if isinstance(r, dict) and "id" in r:
            recs[r["id"]] = r
    return recs, rep
