"""C01, C02, C03, C10, C15 — creation properties, engine E1 (R + S)."""
import contextlib
import os

from mc import core, e1, e2, fsshim, tf, world, seams
from mc.checks import createx
from mc.ref import bencode, bep, model

REAL_B = e1.REAL_B

# property -> list of (label, creator, kwargs, oracle name)
CONFIG = {
    "C01": [("TorrentFile", "TorrentFile", {}, "v1")],
    "C15": [("TorrentFile+align", "TorrentFile", {"align": True}, "v1a")],
    "C02": [("Assembler2", "Assembler2", {}, "v2"),
            ("Assembler3", "Assembler3", {}, "v2"),
            ("TorrentFileV2", "TorrentFileV2", {}, "v2"),
            ("TorrentFileHybrid", "TorrentFileHybrid", {}, "v2"),
            ("Assembler2+align", "Assembler2", {"align": True}, "v2")],
    "C03": [("Assembler3", "Assembler3", {}, "hy"),
            ("TorrentFileHybrid", "TorrentFileHybrid", {}, "hy"),
            # --align is documented as ignored for v2 / hybrid
            ("Assembler3+align", "Assembler3", {"align": True}, "hy"),
            ("TorrentFileHybrid+align", "TorrentFileHybrid", {"align": True},
             "hy")],
    "C10": [],
}

CLI_FLAGS = {
    "C01": ["--meta-version", "1"],
    "C15": ["--meta-version", "1", "--align"],
    "C02": ["--meta-version", "2"],
    "C03": ["--meta-version", "3"],
}


@contextlib.contextmanager
def nofile_limit(n):
    """Run under the usual default limit of open files (the sandbox allows far
    more), so that the pair members are compared where handles are scarce."""
    if n is None:
        yield
        return
    import resource
    soft, hard = resource.getrlimit(resource.RLIMIT_NOFILE)
    resource.setrlimit(resource.RLIMIT_NOFILE, (min(n, hard), hard))
    try:
        yield
    finally:
        resource.setrlimit(resource.RLIMIT_NOFILE, (soft, hard))


def judge(oracle, raw, tree, P_req, B, name):
    try:
        meta = bencode.decode(raw, strict=False)
    except bencode.BencodeError as e:
        return [("undecodable:" + e.reason, None)]
    info = meta.get(b"info")
    if not isinstance(info, dict):
        return [("no-info", None)]
    if info.get(b"name") != model.u(name):
        pre = [("name-wrong", info.get(b"name"))]
    else:
        pre = []
    if oracle == "v1":
        return pre + model.check_v1_plain(info, tree, P_req)
    if oracle == "v1a":
        return pre + model.check_v1_aligned(info, tree, P_req)
    if oracle == "v2":
        return pre + model.check_v2(meta, tree, P_req, B, name)
    if oracle == "hy":
        return pre + model.check_hybrid(meta, tree, P_req, B, name)
    raise ValueError(oracle)


def hasher_agreement(path, P):
    """C10 second half: every v2-capable hasher gives the same description."""
    H = tf.hasher
    probs = []
    with tf.quiet():
        h2 = H.HasherV2(path, P, progress=0,
                        progress_bar=H.HasherV2.NoProg())
        hh = H.HasherHybrid(path, P, progress=0,
                            progress_bar=H.HasherHybrid.NoProg())
        f0 = H.FileHasher(path, P, progress=0, hybrid=False,
                          progress_bar=H.FileHasher.NoProg())
        out0 = list(f0)
        f1 = H.FileHasher(path, P, progress=0, hybrid=True,
                          progress_bar=H.FileHasher.NoProg())
        out1 = list(f1)
    desc = [(bytes(x.root or b""), bytes(x.piece_layer or b""))
            for x in (h2, hh, f0, f1)]
    if len(set(desc)) != 1:
        probs.append(("hashers-disagree-on-root-or-layer",
                      [d[0].hex()[:8] + ":" + str(len(d[1])) for d in desc]))
    if (b"".join(hh.pieces), hh.padding_file) != (b"".join(f1.pieces),
                                                  f1.padding_file):
        probs.append(("hybrid-hashers-disagree-on-pieces-or-padding", None))
    if b"".join(out0) != bytes(f0.piece_layer or b""):
        probs.append(("filehasher-iterator-differs-from-layer", None))
    if b"".join(x[0] for x in out1) != bytes(f1.piece_layer or b""):
        probs.append(("filehasher-hybrid-iterator-differs-from-layer", None))
    if b"".join(x[1] for x in out1) != b"".join(f1.pieces):
        probs.append(("filehasher-hybrid-iterator-differs-from-pieces", None))
    return probs


def canon_info(raw):
    m = bencode.decode(raw, strict=False)
    return (bencode.encode(bencode.plain(m[b"info"])),
            bencode.encode(bencode.plain(m.get(b"piece layers", {}))))


class CreateCheck:
    def __init__(self, pid):
        self.id = pid
        self.assumptions = [
            "real scale R: file sizes from the boundary alphabet around block "
            "(16 KiB) and piece multiples, trees of <= 5 files, depth <= 3; "
            "shapes include a child named like the root and payload files "
            "named like the output metafile",
            "piece length 2^25 (thorough also 2^20, 2^24) with tiny files",
            "on the CLI sub-catalogue every creator is also called with the "
            "path as pathlib.Path, through the `content` alias, and with the "
            "piece length as text / as exponent; results must be identical",
            "environment faults during creation (one per execution): a payload "
            "file that cannot be opened, a failing read, a progress line that "
            "cannot be written -- if a metafile results it must be a true one",
            "a sub-catalogue with all-zero file contents and one with a "
            "content root whose name has dots and a space",
            "long single files in S: every size up to 2200 (thorough 4200) "
            "bytes at B=2, i.e. up to 1100 (2100) blocks / pieces, so counts "
            "pass 257, 513, 1025, 2049; thorough adds real files of 257, 258, "
            "513 and 1025 pieces",
            "scaled model S = the same code with hasher.BLOCK_SIZE rebound to "
            "2 (thorough also 4): every byte size up to 2P+1 (thorough 4P+1); "
            "transfers to B=16384 by the parametricity argument + conformance "
            "replay of S worlds at R, not by proof",
            "process environment: every creator configuration of the property "
            "x progress 0/1/2 x library and command line, on a directory and "
            "a single file with a file of 160 blocks + 7 bytes (the progress "
            "percentage does not move on every block), piece length 32 KiB "
            "and 4 MiB (all files within one piece), in a child interpreter "
            "under every member of envrun.ENVS (terminal widths 30/12/200, "
            "-O, ASCII filesystem encoding / POSIX locale, stdout closed / "
            "/dev/full / file / ASCII-only / a regular file under an 8 KiB "
            "RLIMIT_FSIZE, removed cwd, -W error, debug switch, recursion / "
            "descriptor limits, umasks, no HOME, time zone, small io "
            "buffer); reading: a metafile that results must be a true one "
            "(C10: delivered partners must agree); an operation that refuses "
            "without leaving a metafile is not judged, except in the default "
            "environment",
            "library surface, host tracker: a sub-class of each creator whose "
            "get_progress_tracker returns the host's own object (update "
            "returns None / its argument / a running total / 0 / raises at "
            "call 1 or 3; 2000-call budget), progress 0/1/2, single files and "
            "every 3-file vector over {5, B+1, P+7232}; a metafile that "
            "results must be a true one, raising is not judged",
            "library surface, host callback: a bound method registered with "
            "set_callback on the creator class or on the hasher class "
            "(class level, so a later command-line create in the process "
            "sees it) that returns, or lets a StopIteration escape at call "
            "k (every k up to the number of pieces + 1), or a ValueError at "
            "the first / last call; a create that returns must have written "
            "a true metafile, raising is not judged",
            "library surface, two hashers alive at once in one thread: every "
            "schedule of the next() calls of two iterators of one class and "
            "piece length over different payloads (outputs and final "
            "attributes must equal the sequential ones), and every placement "
            "(with repetition) of the next() calls of a second iterator "
            "inside the progress updates of a creator (host tracker that "
            "re-enters the library; the creator's metafile is judged by the "
            "property's oracle, the inner iterator against its sequential "
            "output; C10 also at hasher level); no threads",
            "no symlinks / special files; payload bytes contain no zero byte",
            "reference BEP 52 model: two independent formulations asserted "
            "equal on every file hashed",
        ]
        self.nontrivial_rule = (
            "a world is non-trivial if its payload is not empty; a fault "
            "exploration run if a fault was injected; an environment child if "
            "the environment is not the default one; a host tracker / "
            "callback / interleaving case always (a host object is "
            "installed); counted = distinct such worlds / choice vectors / "
            "cases")
        self.rule = (
            "nested product: scale x piece length x shape x size vector "
            "(boundary alphabet in R, every integer size in S) [x creator]; a "
            "state is one distinct world (scale,P,shape,sizes); a transition "
            "is one execution of a creator of the real code; every written "
            "metafile is decoded and compared with the reference model; plus "
            "enumerated axes on fixed sub-catalogues: process environment "
            "(envrun.ENVS x creator x progress x route, one child per "
            "environment), host tracker form x progress, host callback "
            "behaviour x registration x route, and all interleaving "
            "schedules of two live hashers (counter "
            "interleaving_schedules)")

    # ---------------------------------------------------------------- groups
    def groups(self, tier, seed):
        pid = self.id
        gs = []
        quick = tier == "quick"
        # R, trees
        if quick:
            shapes3 = ["D2", "D2n", "D3", "D3s", "D3o", "D3u", "D3n", "D3t",
                       "D3d", "D3p", "D3b", "D3num", "D3e", "D3q", "D2rr"]
            shapes4 = ["D4"]
            Ps = [16384, 32768]
        else:
            shapes3 = ["D2", "D2n", "D3", "D3s", "D3o", "D3u", "D3x", "D3n",
                       "D3t", "D3d", "D3p", "D3b", "D3num", "D3e", "D3q",
                       "D2rr"]
            shapes4 = ["D4", "D4n", "D5"]
            Ps = [16384, 32768, 65536]
        if pid in ("C02", "C03", "C10") and quick:
            shapes3 = ["D2n", "D3", "D3o", "D3u", "D3n", "D3t", "D3d", "D3p",
                       "D3b", "D3num", "D3e", "D3q", "D2rr"]
        for P in Ps:
            for sh in shapes3 + shapes4:
                n = world.nfiles(sh)
                if quick and n >= 4 and P != 32768:
                    continue
                alpha = e1.r_alphabet(P, tier, n)
                for g in e1.size_groups(sh, alpha):
                    gs.append({"kind": "tree", "scale": "R", "B": REAL_B,
                               "P": P, "shape": sh, "alpha": alpha,
                               "first": g["first"], "seed": seed,
                               "listing": "native"})
        # thorough: listing perturbation on a sub-catalogue
        if not quick:
            for sh in ["D3", "D3o", "D4n"]:
                alpha = e1.r_alphabet(32768, "quick", world.nfiles(sh))
                for g in e1.size_groups(sh, alpha):
                    gs.append({"kind": "tree", "scale": "R", "B": REAL_B,
                               "P": 32768, "shape": sh, "alpha": alpha,
                               "first": g["first"], "seed": seed,
                               "listing": "reversed"})
        # R, dense single-file sweep (S1 and D1)
        densePs = [16384, 32768, 65536, 131072] if quick else \
            [16384, 32768, 65536, 131072, 262144]
        for P in densePs:
            sizes = e1.dense_sizes(P, REAL_B)
            chunk = 24
            for sh in ("S1", "D1", "D1n"):
                for i in range(0, len(sizes), chunk):
                    gs.append({"kind": "dense", "scale": "R", "B": REAL_B,
                               "P": P, "shape": sh,
                               "sizes": sizes[i:i + chunk], "seed": seed,
                               "listing": "native"})
        # S, long single files: every size up to ~1100 blocks, so that block
        # and piece counts pass 257, 513, 1025 (padding logic above 2^8)
        for P in ([2, 1024] if quick else [2, 4, 256, 1024]):
            top = 2200 if quick else 4200
            sizes = list(range(0, top + 1))
            for sh in ("S1",) if quick else ("S1", "D1"):
                for i in range(0, len(sizes), 100):
                    gs.append({"kind": "dense", "scale": "S", "B": 2, "P": P,
                               "shape": sh, "sizes": sizes[i:i + 100],
                               "seed": seed, "listing": "native",
                               "long": True})
        if not quick:
            # R, single files with 257 / 258 / 513 / 1025 pieces
            for P in (16384,):
                for sz in (257 * P, 257 * P + 1, 513 * P - 1, 1025 * P):
                    gs.append({"kind": "dense", "scale": "R", "B": REAL_B,
                               "P": P, "shape": "S1", "sizes": [sz],
                               "seed": seed, "listing": "native"})
        # all-zero file contents (data that hashes like padding would) and a
        # content root whose own name has dots and a space
        for variant in ({"content": "zero"}, {"rootname": "my.archive v1.tar"}):
            for scale, B, P, shapes in (("R", REAL_B, 32768, ("S1", "D2n")),
                                        ("S", 2, 4, ("S1", "D2n", "D3"))):
                for sh in shapes:
                    n = world.nfiles(sh)
                    alpha = e1.r_alphabet(P, "quick", n) if scale == "R" \
                        else e1.s_sizes(P, "quick", n)
                    for g in e1.size_groups(sh, alpha):
                        gs.append(dict({"kind": "tree", "scale": scale,
                                        "B": B, "P": P, "shape": sh,
                                        "alpha": alpha, "first": g["first"],
                                        "seed": seed, "listing": "native",
                                        "cli": scale == "R"}, **variant))
        # several names for one file: equal contents as separate files and as
        # hard links of one inode (same directory, across directories, all)
        for cids in ([0, 0, 2], [0, 1, 0], [0, 1, 1], [0, 0, 0]):
            for hl in (True, False):
                for scale, B, P, alpha in (
                        ("R", REAL_B, 32768, [1, 16385, 32768, 40000]),
                        ("S", 2, 4, list(range(0, 10)))):
                    vecs = []
                    for s_ in alpha:
                        for t_ in alpha:
                            v = [t_, t_, t_]
                            for i, c in enumerate(cids):
                                if cids.count(c) > 1:
                                    v[i] = s_
                            if v not in vecs:
                                vecs.append(v)
                    step = 8 if scale == "R" else 50
                    for i in range(0, len(vecs), step):
                        gs.append({"kind": "vec", "scale": scale, "B": B,
                                   "P": P, "shape": "D3",
                                   "sizes_list": vecs[i:i + step],
                                   "cids": cids, "hardlink": hl,
                                   "seed": seed, "listing": "native",
                                   "cli": scale == "R"})
        # files stored with holes (data islands starting on 4 KiB pages at
        # every offset modulo the block) next to the same bytes stored densely
        for sp in (True, False):
            for P in ((16384, 65536) if quick else (16384, 65536, 262144)):
                for sh, vecs in (("S1", [[100000], [463752], [8 * P + 4097]]),
                                 ("D2n", [[463752, 5], [70000, 200000]])):
                    gs.append({"kind": "vec", "scale": "R", "B": REAL_B,
                               "P": P, "shape": sh, "sizes_list": vecs,
                               "cids": ["holesA", "holesB"][:world.nfiles(sh)],
                               "sparse": sp, "seed": seed,
                               "listing": "native", "cli": True})
        # symbolic links inside the content (only where the quantifier does
        # not exclude them): consistent treatment is all that is judged
        if pid in ("C02", "C03", "C10"):
            for scale, B, P, alpha in (("R", REAL_B, 32768, [5, 40000]),
                                       ("S", 2, 4, [0, 3, 9])):
                for g_ in e1.size_groups("D3", alpha):
                    gs.append({"kind": "tree", "scale": scale, "B": B, "P": P,
                               "shape": "D3", "alpha": alpha,
                               "first": g_["first"], "links": True,
                               "seed": seed, "listing": "native",
                               "cli": scale == "R"})
        # automatic piece length over more than a thousand files just above
        # one block (padding and rounding move the totals across thresholds)
        if pid in ("C01", "C15"):
            gs.append({"kind": "vec", "scale": "R", "B": REAL_B, "P": None,
                       "shape": "W1100", "seed": seed, "listing": "native",
                       "cli": True,
                       "sizes_list": e1.cyclic_vectors(
                           1100, [16385, 20000, 17000], offsets=[0])})
            gs.append({"kind": "vec", "scale": "R", "B": REAL_B, "P": None,
                       "shape": "W300", "seed": seed, "listing": "native",
                       "cli": True,
                       "sizes_list": e1.cyclic_vectors(
                           300, [32769, 70000, 16385], offsets=[0])})
        # R, the largest piece lengths the validator accepts, tiny files
        # (padding / zero-extension longer than 16 MiB)
        for P in ([1 << 25] if quick else [1 << 20, 1 << 24, 1 << 25]):
            for sh, alpha in (("D2n", [1, 16385]), ("S1", [1, 16385])):
                for g in e1.size_groups(sh, alpha):
                    gs.append({"kind": "tree", "scale": "R", "B": REAL_B,
                               "P": P, "shape": sh, "alpha": alpha,
                               "first": g["first"], "seed": seed,
                               "listing": "native", "cli": True})
        # large piece lengths with files of several MiB: pieces that straddle
        # files with megabytes still missing (R: thresholds given in bytes;
        # S: the same with 512 blocks per piece, thresholds given in blocks)
        MiB = 1 << 20
        big_vecs = [[12 * MiB, 5 * MiB + 321, 7],
                    [4 * MiB, 4 * MiB, 9 * MiB],
                    [3 * MiB + 17, 6 * MiB + 5, MiB + 1],
                    [6 * MiB + 5, 3 * MiB + 17, 11 * MiB + 7]]
        if not quick:
            big_vecs += [[MiB + 1, 16 * MiB, 2 * MiB], [8 * MiB, 1, 8 * MiB],
                         [20 * MiB + 3, 5, 4 * MiB - 1]]
        for P in ([1 << 22, 1 << 23] if quick else
                  [1 << 21, 1 << 22, 1 << 23, 1 << 24]):
            for v in big_vecs:
                gs.append({"kind": "vec", "scale": "R", "B": REAL_B, "P": P,
                           "shape": "D3", "sizes_list": [v], "seed": seed,
                           "listing": "native"})
            # single files longer than any plausible read buffer
            for sz in ([10 * MiB + 1, 21 * MiB + 3] if quick else
                       [4 * MiB + 1, 8 * MiB, 10 * MiB + 1, 16 * MiB + 5,
                        21 * MiB + 3, 32 * MiB - 1]):
                gs.append({"kind": "dense", "scale": "R", "B": REAL_B,
                           "P": P, "shape": "S1", "sizes": [sz],
                           "seed": seed, "listing": "native"})
        for sh in ("D2n", "D3"):
            alpha = [300, 513, 700, 1025] if quick else \
                [255, 300, 513, 700, 1025, 1537]
            for g in e1.size_groups(sh, alpha):
                gs.append({"kind": "tree", "scale": "S", "B": 2, "P": 1024,
                           "shape": sh, "alpha": alpha, "first": g["first"],
                           "seed": seed, "listing": "native", "long": True})
        # scale and count: many files in one directory, many directories, deep
        # nesting, long names; sizes = a pattern repeated along the file list,
        # once per starting offset
        for sh in ("W40", "N16", "L250", "W300") + (() if quick
                                                     else ("W1100",)):
            n = world.nfiles(sh)
            for P in ((4,) if quick else (2, 4, 8)):
                pat = list(range(0, 2 * P + 2))
                vecs = e1.cyclic_vectors(n, pat) + \
                    e1.cyclic_vectors(n, pat, offsets=[0, 3], stride=3)
                if sh in ("W300", "W1100"):
                    vecs = vecs[:3] if quick else vecs
                for i in range(0, len(vecs), 2):
                    gs.append({"kind": "vec", "scale": "S", "B": 2, "P": P,
                               "shape": sh, "sizes_list": vecs[i:i + 2],
                               "seed": seed, "listing": "native"})
        for sh in ("W40", "N16", "L250"):
            P = 32768
            pat = [0, 1, REAL_B, REAL_B + 1, P - 1, P, P + 1, 2 * P + 1]
            vecs = e1.cyclic_vectors(world.nfiles(sh), pat,
                                     offsets=[0, 5] if quick else None)
            for v in vecs:
                gs.append({"kind": "vec", "scale": "R", "B": REAL_B, "P": P,
                           "shape": sh, "sizes_list": [v], "seed": seed,
                           "listing": "native", "cli": True})
        gs.append({"kind": "vec", "scale": "R", "B": REAL_B, "P": 16384,
                   "shape": "W1100", "seed": seed, "listing": "native",
                   "sizes_list": e1.cyclic_vectors(
                       1100, [0, 1, 7, 16384, 16385, 5], offsets=[0])})
        gs.append({"kind": "vec", "scale": "R", "B": REAL_B, "P": 16384,
                   "shape": "W1100", "seed": seed, "listing": "native",
                   "sizes_list": e1.cyclic_vectors(
                       1100, [3, 1, 7, 16384, 16385, 5], offsets=[0])})
        gs.append({"kind": "vec", "scale": "S", "B": 2, "P": 4,
                   "shape": "W1100", "seed": seed, "listing": "native",
                   "sizes_list": [[5] + [0] * 1098 + [7]]})
        # environment faults while creating (E2, one fault per execution): a
        # payload file that cannot be opened, a read that fails, a progress
        # line that cannot be written
        if pid in CONFIG and CONFIG[pid]:
            for label, creator, kw, oracle in CONFIG[pid]:
                for progress in (0, 1, 2):
                    gs.append({"kind": "iofault", "label": label,
                               "progress": progress, "seed": seed})
        # name relations between the root and what lies below it, through
        # the library value forms and the CLI
        for sh in ("D2rr", "D3n", "D3o"):
            alpha = [5, 32769]
            for g in e1.size_groups(sh, alpha):
                gs.append({"kind": "tree", "scale": "R", "B": REAL_B,
                           "P": 32768, "shape": sh, "alpha": alpha,
                           "first": g["first"], "seed": seed, "cli": True,
                           "listing": "native"})
        # auto piece length + CLI route (R)
        for sh in ("S1", "D2n", "D3"):
            alpha = e1.r_alphabet(16384, "quick", 3)
            for g in e1.size_groups(sh, alpha):
                gs.append({"kind": "tree", "scale": "R", "B": REAL_B,
                           "P": None, "shape": sh, "alpha": alpha,
                           "first": g["first"], "seed": seed, "cli": True,
                           "listing": "native"})
        # S
        sB = [2] if quick else [2, 4]
        for B in sB:
            Ps_s = [B, 2 * B, 4 * B] if quick else [B, 2 * B, 4 * B, 8 * B]
            for P in Ps_s:
                for sh in ["S1", "D1", "D2", "D2n", "D3", "D3s", "D4"]:
                    n = world.nfiles(sh)
                    if n >= 3 and P > 4 * B:
                        continue
                    if n >= 3 and B == 4 and P > 2 * B:
                        continue
                    if n >= 4 and (P > 2 * B or B != 2):
                        continue
                    alpha = e1.s_sizes(P, tier, n)
                    for g in e1.size_groups(sh, alpha):
                        gs.append({"kind": "tree", "scale": "S", "B": B,
                                   "P": P, "shape": sh, "alpha": alpha,
                                   "first": g["first"], "seed": seed,
                                   "listing": "native"})
        # the process environment and the library surface (createx)
        gs += createx.groups(pid, tier, seed)
        return gs

    # ------------------------------------------------------------- execution
    def observe(self, w, seed, cli=False, listing="native"):
        """Execute all configured creators on world w at its own scale; return
        (problems dict label -> [(problem, detail)], transitions)."""
        pid = self.id
        B, P = w["B"], w["P"]
        files = world.files_of(w, seed)
        tree = dict(files)
        parent = world.fresh_dir()
        name = w.get("rootname") or world.ROOT_NAME
        path = world.materialize(files, parent, name=name, shape=w["shape"],
                                 hardlink=w.get("hardlink", False),
                                 sparse=w.get("sparse", False))
        trees = None
        if w.get("links"):
            # symbolic links below the content root (shape D3: a, d/b, e):
            # two directory links to `d` -- one from a directory whose name
            # merely begins like the target's, one from an unrelated one --
            # and a link to the file `a`.  Whether links are followed is not
            # fixed by the statements; every *consistent* policy is accepted
            # (directory links followed or not, file links followed or not).
            for holder in ("d-extras", "xtras"):
                os.mkdir(os.path.join(path, holder))
                os.symlink(os.path.join("..", "d"),
                           os.path.join(path, holder, "main"))
            os.symlink("a", os.path.join(path, "zlink"))
            dl = {("d-extras", "main", "b"): tree[("d", "b")],
                  ("xtras", "main", "b"): tree[("d", "b")]}
            fl = {("zlink",): tree[("a",)]}
            trees = [{**tree, **dl, **fl}, {**tree, **dl}, {**tree, **fl},
                     dict(tree)]
            tree = trees[0]
        out = {}
        trans = 0
        tf.reset_process_state()
        ctx = seams.listing_order("reversed") if listing == "reversed" \
            else seams.nullctx()
        with tf.scale(B), ctx, nofile_limit(
                1024 if pid == "C10" and w["shape"] == "W1100" else None):
            if pid == "C10":
                raws = {}
                for creator in ("Assembler2", "TorrentFileV2", "Assembler3",
                                "TorrentFileHybrid"):
                    of = os.path.join(parent, creator + ".t")
                    if w["shape"] == "D3t":
                        os.mkdir(os.path.join(parent, "out_" + creator))
                        of = os.path.join(parent, "out_" + creator,
                                          "o.torrent")
                    try:
                        raws[creator] = canon_info(tf.create(creator, path, of,
                                                             P))
                    except Exception as e:  # noqa
                        raws[creator] = ("raised", type(e).__name__)
                    trans += 1
                probs = []
                if raws["Assembler2"] != raws["TorrentFileV2"]:
                    probs.append(("v2-creators-disagree", None))
                if raws["Assembler3"] != raws["TorrentFileHybrid"]:
                    probs.append(("hybrid-creators-disagree", None))
                out["creators"] = probs
                hp = []
                if P is not None:
                    for rel, data in files:
                        if not data:
                            continue
                        fp = os.path.join(path, *rel) if rel else path
                        try:
                            hp += hasher_agreement(fp, P)
                        except Exception as e:  # noqa
                            hp.append(("hasher-raised:" + type(e).__name__,
                                       str(e)[:200]))
                        trans += 4
                out["hashers"] = model._dedup(hp)
                return out, trans
            for label, creator, kw, oracle in CONFIG[pid]:
                of = os.path.join(parent, label + ".torrent")
                if w["shape"] == "D3t":
                    # the output metafile carries the name of payload files
                    os.mkdir(os.path.join(parent, "out_" + label))
                    of = os.path.join(parent, "out_" + label, "o.torrent")
                try:
                    raw = tf.create(creator, path, of, P, **kw)
                    out[label] = judge(oracle, raw, tree, P, B, name)
                    if trees and out[label]:
                        for alt in trees[1:]:
                            if not judge(oracle, raw, alt, P, B, name):
                                out[label] = []
                                break
                        else:
                            out[label] = [("links:" + p_, d_)
                                          for p_, d_ in out[label]]
                except bep.OracleError:
                    raise
                except Exception as e:  # noqa
                    out[label] = [("creator-raised:" + type(e).__name__,
                                   str(e)[:200])]
                trans += 1
                # the same request in other library value forms: the path as a
                # pathlib.Path, the `content` alias, the piece length as text
                if cli and P is not None and B == REAL_B and \
                        not out[label]:
                    import pathlib
                    base_m = bencode.plain(bencode.decode(raw, strict=False))
                    base_m.pop(b"creation date", None)
                    exp = P.bit_length() - 1
                    forms = {"Path": dict(path=pathlib.Path(path),
                                          piece_length=P),
                             "content": dict(content=path, piece_length=P),
                             "plstr": dict(path=path, piece_length=str(P))}
                    if 14 <= exp <= 25:
                        forms["plexp"] = dict(path=path, piece_length=exp)
                    # and the same object asked twice: assemble() again before
                    # writing, write() again to a second path
                    # the content path given relative to the working directory
                    forms["relpath"] = dict(path=os.path.basename(path),
                                            piece_length=P)
                    forms["reassemble"] = dict(path=path, piece_length=P)
                    forms["write-twice"] = dict(path=path, piece_length=P)
                    if os.path.isdir(path) and not trees and \
                            not w.get("hardlink"):
                        # the output inside the content directory, created
                        # twice: the second metafile describes a tree that
                        # holds the first one as an ordinary file
                        own = os.path.join(path, "own.torrent")
                        try:
                            with tf.quiet():
                                t1 = tf.CREATORS[creator](
                                    outfile=own, progress=0,
                                    **dict(kw, path=path, piece_length=P))
                                t1.write()
                            with open(own, "rb") as f:
                                raw1 = f.read()
                            with tf.quiet():
                                t2 = tf.CREATORS[creator](
                                    outfile=own, progress=0,
                                    **dict(kw, path=path, piece_length=P))
                                t2.write()
                            with open(own, "rb") as f:
                                raw2 = f.read()
                            tree2 = dict(tree)
                            tree2[("own.torrent",)] = raw1
                            for p_, d_ in judge(oracle, raw2, tree2, P, B,
                                                name):
                                out[label].append(("inside-twice:" + p_, d_))
                        except bep.OracleError:
                            raise
                        except Exception as e:  # noqa
                            out[label].append(("api-form-raised:inside-twice:"
                                               + type(e).__name__, None))
                        finally:
                            if os.path.exists(own):
                                os.remove(own)
                        trans += 2
                    for form, fkw in forms.items():
                        of2 = of + "." + form
                        oldcwd = os.getcwd()
                        try:
                            if form == "relpath":
                                os.chdir(os.path.dirname(path))
                            with tf.quiet():
                                t = tf.CREATORS[creator](outfile=of2,
                                                         progress=0,
                                                         **dict(kw, **fkw))
                                if form == "reassemble":
                                    t.assemble()
                                t.write()
                                if form == "write-twice":
                                    of2 = of2 + ".second"
                                    t.write(of2)
                            with open(of2, "rb") as f:
                                m2 = bencode.plain(bencode.decode(
                                    f.read(), strict=False))
                            m2.pop(b"creation date", None)
                            if m2 != base_m:
                                out[label].append(
                                    ("api-form-differs:" + form, None))
                        except Exception as e:  # noqa
                            out[label].append(("api-form-raised:" + form + ":"
                                               + type(e).__name__, None))
                        finally:
                            os.chdir(oldcwd)
                        trans += 1
            if cli and pid in CLI_FLAGS:
                of = os.path.join(parent, "cli.torrent")
                argv = ["create", path, "-o", of, "--prog", "0"] + CLI_FLAGS[pid]
                if P is not None:
                    argv += ["--piece-length", str(P)]
                oracle = CONFIG[pid][0][3]
                try:
                    tf.execute(argv)
                    with open(of, "rb") as f:
                        raw = f.read()
                    out["cli"] = judge(oracle, raw, tree, P, B, name)
                    if trees and out["cli"]:
                        if any(not judge(oracle, raw, alt, P, B, name)
                               for alt in trees[1:]):
                            out["cli"] = []
                except Exception as e:  # noqa
                    out["cli"] = [("creator-raised:" + type(e).__name__,
                                   str(e)[:200])]
                trans += 1
        return out, trans

    @staticmethod
    def vector(obs):
        return sorted((label, p) for label, probs in obs.items()
                      for p, _ in probs)

    def run_iofault(self, g):
        res = core.Result()
        seed = g["seed"]
        P = 16384
        spec = [c for c in CONFIG[self.id] if c[0] == g["label"]][0]
        label, creator, kw, oracle = spec
        w = {"scale": "R", "B": REAL_B, "P": P, "shape": "D3",
             "sizes": [P + 1, 5, 2 * P]}
        files = world.files_of(w, seed)
        tree = dict(files)

        class FaultyOut:
            def __init__(self, run):
                self.run = run

            def write(self, text):
                if self.run.choose(2, "stdout-write") == 1:
                    raise BlockingIOError(11, "Resource temporarily "
                                              "unavailable")
                return len(text)

            def flush(self):
                pass

            def isatty(self):
                return False

        def one(run):
            parent = world.fresh_dir("iof_")
            payload_parent = os.path.join(parent, "payload")
            os.mkdir(payload_parent)
            path = world.materialize(files, payload_parent)
            of = os.path.join(parent, "o.torrent")
            tf.reset_process_state()
            import sys
            so, se = sys.stdout, sys.stderr
            shim = fsshim.FsShim(run, payload_parent, fault_reads=True,
                                 read_faults=True, crashes=False,
                                 short_reads=True, list_faults=True)
            outcome = "returned"
            try:
                sys.stdout = FaultyOut(run) if g["progress"] else tf.NULL
                sys.stderr = tf.NULL
                with shim:
                    t = tf.CREATORS[creator](path=path, piece_length=P,
                                             outfile=of,
                                             progress=g["progress"], **kw)
                    t.write()
            except BaseException as e:  # noqa
                outcome = "raised:" + type(e).__name__
            finally:
                sys.stdout, sys.stderr = so, se
            raw = None
            if os.path.isfile(of):
                with open(of, "rb") as f:
                    raw = f.read()
            import shutil
            shutil.rmtree(parent, ignore_errors=True)
            return outcome, raw, shim.fault

        ex = e2.Explorer(1, max_runs=20000)
        for run, (outcome, raw, fault) in ex.explore(one):
            res.states += 1
            res.transitions += 1
            res.evals += 1
            res.validated += 1
            dev = [lab for c, (n, lab) in zip(run.choices, run.points) if c]
            if dev:
                res.extra["nontrivial"] += 1
            what = (dev[0].split(":")[0] if dev else "no-fault")
            probs = []
            if outcome == "returned":
                if raw is None:
                    probs = [("returned-without-metafile", None)]
                else:
                    probs = judge(oracle, raw, tree, P, REAL_B,
                                  world.ROOT_NAME)
            elif raw is not None and what != "no-fault":
                # failed, yet left a metafile: it must still be a true one
                probs = judge(oracle, raw, tree, P, REAL_B, world.ROOT_NAME)
            res.outcomes[f"{what}/{outcome.split(':')[0]}/"
                         f"{'ok' if not probs else probs[0][0]}"] += 1
            for p, d in probs:
                res.violation(
                    f"{self.id}|{label}|{p}|after-fault:{what}|progress="
                    f"{g['progress']}",
                    {"kind": "iofault", "label": label,
                     "progress": g["progress"], "seed": seed,
                     "vector": [[c, list(pt)] for c, pt in
                                zip(run.choices, run.points)]},
                    {"outcome": outcome, "fault": fault, "detail": d})
        res.sample({"kind": "iofault", "label": label,
                    "progress": g["progress"], "runs": ex.runs})
        return res

    def run_group(self, g):
        if g["kind"] == "iofault":
            return self.run_iofault(g)
        if g["kind"] in createx.RUNNERS:
            return createx.run(self, g)
        res = core.Result()
        seed = g["seed"]
        if g["kind"] == "dense":
            size_iter = ([s] for s in g["sizes"])
        elif g["kind"] == "vec":
            size_iter = iter(g["sizes_list"])
        else:
            size_iter = e1.iter_sizes(g["shape"], g["alpha"], g["first"])
        confirmed = {}
        for sizes in size_iter:
            w = {"scale": g["scale"], "B": g["B"], "P": g["P"],
                 "shape": g["shape"], "sizes": sizes}
            if g.get("content") == "zero":
                w["cids"] = ["zero"] * len(sizes)
            if g.get("rootname"):
                w["rootname"] = g["rootname"]
            if g.get("cids"):
                w["cids"] = g["cids"]
            if g.get("hardlink"):
                w["hardlink"] = True
            if g.get("sparse"):
                w["sparse"] = True
            if g.get("links"):
                w["links"] = True
            obs, trans = self.observe(w, seed, cli=g.get("cli", False),
                                      listing=g.get("listing", "native"))
            res.states += 1
            if sum(sizes) > 0:
                res.extra["nontrivial"] += 1
            res.transitions += trans
            res.evals += trans
            res.validated += len(obs)
            vec = self.vector(obs)
            res.outcomes["S:" + repr(vec) if g["scale"] == "S"
                         else "R:" + repr(vec)] += 1
            res.sample({"world": w, "observation": vec})
            if g["scale"] == "R":
                for label, probs in obs.items():
                    for p, d in probs:
                        res.violation(
                            f"{self.id}|{label}|{p}|{e1.world_class(w)}",
                            {"world": w, "seed": seed,
                             "cli": g.get("cli", False),
                             "listing": g.get("listing", "native")},
                            {"label": label, "problem": p, "detail": d})
                continue
            # S: conformance replay at R for all <=2-file worlds and for every
            # world on which S and the reference disagree
            small = world.nfiles(g["shape"]) <= 2 and not g.get("long")
            key = repr(vec)
            if vec and confirmed.get(key, 0) >= 3:
                res.extra["S_disagreements_not_replayed_over_cap"] += 1
                continue
            if vec or small:
                rw = e1.world_to_real(w)
                if max(rw["sizes"]) > (1 << 25):
                    res.extra["S_worlds_too_large_to_replay_at_R"] += 1
                    continue
                robs, rtrans = self.observe(rw, seed)
                res.transitions += rtrans
                res.conformance += 1
                rvec = self.vector(robs)
                if rvec != vec:
                    res.extra["S_R_vector_mismatch"] += 1
                    res.notes.add(
                        "scaled model void for some worlds: S and R "
                        "observations differ, e.g. " + repr((w, vec, rvec))[:300])
                if vec:
                    confirmed[key] = confirmed.get(key, 0) + 1
                for label, probs in robs.items():
                    for p, d in probs:
                        res.violation(
                            f"{self.id}|{label}|{p}|{e1.world_class(rw)}",
                            {"world": rw, "seed": seed, "cli": False,
                             "listing": "native"},
                            {"label": label, "problem": p, "detail": d})
        return res

    def replay(self, case):
        if case.get("kind") in createx.RUNNERS:
            return createx.replay(self, case)
        if case.get("kind") == "iofault":
            r = self.run_iofault({"label": case["label"],
                                  "progress": case["progress"],
                                  "seed": case["seed"]})
            return [{"sig": v["sig"], "detail": v["detail"]}
                    for v in r.violations
                    if v["case"]["vector"] == case["vector"]]
        obs, _ = self.observe(case["world"], case["seed"],
                              cli=case.get("cli", False),
                              listing=case.get("listing", "native"))
        out = []
        for label, probs in obs.items():
            for p, d in probs:
                out.append({"sig": f"{self.id}|{label}|{p}|"
                                   f"{e1.world_class(case['world'])}",
                            "detail": d})
        return out


def make(pid):
    return CreateCheck(pid)
