"""C11 — magnet URI: exhaustive product of metafile key sets x string alphabet
x version requests, judged against the reference magnet model."""
import itertools
import os
from urllib.parse import parse_qsl

from mc import core, tf, world
from mc.ref import bencode, model

P0 = 16384
TOKENS = ["a", " ", "&", "=", "%", "+", "#", "?", "/", "é", "%41", ",", ":", ";",
          "~", "'", "\"", "<", "\\", "ü/", "日"]

ANN_FORMS = ["none", "announce", "list1", "list2", "both", "both-differ"]
URL_FORMS = ["absent", "list0", "list1", "list2", "string"]
EXTRA = ["plain", "extra"]
# info-level keys NAMED like the top-level tracker / web-seed keys (legal
# unknown info keys: part of the hashed bytes, but not "the metafile's tracker
# URLs / web-seed URLs", which live at the top level only).  Combined with the
# announce-form x url-list-form product every namesake occurs with and without
# its top-level counterpart.
SHADOWS = {
    "shadow": (b"announce", b"announce-list", b"url-list"),
    "shadow-announce": (b"announce",),
    "shadow-announce-list": (b"announce-list",),
    "shadow-url-list": (b"url-list",),
    # the string form of an info-level url-list, and an empty tier list
    "shadow-forms": (b"announce-list:empty", b"url-list:string"),
}


# whole, realistic URLs (what matters here: how a URL *ends*)
REALISTIC = ["http://tracker.example.net", "udp://open.tracker.org:6969/announce",
             "http://localhost/tracker", "https://t.example/a?passkey=x&y=t",
             "http://seed.example/dir/", "http://r", "wss://tracker.example/tr"]


# names under which the metafile itself is stored, and what may lie beside it
PATH_NAMES = ["m", "m.torrent", "m.TORRENT", "m.tor", "sub/m", "m.torrent.bak",
              ".torrent", "m.", "m 1", "d.torrent/m"]
# values that look like bencoding, above all like the key that introduces the
# info dictionary (they sit in keys sorting before and after `info`)
BENCODEISH = ["http://t.example/4:info/announce", "info about it!", "4:info",
              "d4:infod4:name1:xee", "4:infod", "e4:info", "i1e", "0:", "le"]


def neighbours(d, fname):
    """Other metafiles lying around the given one (all inside d)."""
    stem = os.path.splitext(fname)[0]
    out = [fname + ".torrent", fname + ".TORRENT", stem + ".torrent", stem,
           os.path.join(os.path.dirname(fname), "o.torrent"),
           os.path.basename(fname)]
    return [os.path.join(d, x) for x in out if x and x != fname]


PATH_ROUTES = ["lib", "lib-path", "lib-rel", "cli", "cli-rel", "cli-m", "ns",
               "ns-path"]


# calling styles: the ways a host program (or the command line) can hand the
# metafile and the version request to the code.  The documented signature is
# magnet(metafile, version=0) with an int; get_magnet() takes the Namespace the
# parser builds (meta_version is a digit string there, a hand-built one may
# carry an int); `default` exists for the automatic request only.
STYLES = ["default", "kw", "pos", "pkg-pos", "pkg-kw", "all-kw", "kw-swapped",
          "star-args", "ns-str", "ns-int", "cli", "cli-flag-first", "cli-eq"]


def call_style(style, path, vr):
    """One magnet request in one calling style -> URI."""
    from argparse import Namespace
    pkg = tf.torrentfile
    if style.startswith("cli"):
        flag = ["--meta-version=" + str(vr)] if style == "cli-eq" else \
            ["--meta-version", str(vr)]
        argv = ["magnet"] + flag + [path] if style == "cli-flag-first" else \
            ["magnet", path] + flag
        return tf.execute(argv)
    with tf.quiet():
        if style == "default":
            return tf.commands.magnet(path)
        if style == "kw":
            return tf.commands.magnet(path, version=vr)
        if style == "pos":
            return tf.commands.magnet(path, vr)
        if style == "pkg-pos":
            return pkg.magnet(path, vr)
        if style == "pkg-kw":
            return pkg.magnet(path, version=vr)
        if style == "all-kw":
            return pkg.magnet(metafile=path, version=vr)
        if style == "kw-swapped":
            return pkg.magnet(version=vr, metafile=path)
        if style == "star-args":
            return tf.commands.magnet(*(path, vr))
        if style == "ns-str":
            return tf.commands.get_magnet(
                Namespace(metafile=path, meta_version=str(vr)))
        if style == "ns-int":
            return tf.commands.get_magnet(
                Namespace(metafile=path, meta_version=vr))
    raise core.InfraError("unknown calling style " + style)


def strings(tier):
    toks = TOKENS[:12] if tier == "quick" else TOKENS
    out = []
    maxlen = 2 if tier == "quick" else 3
    for n in range(1, maxlen + 1):
        if n == 3:
            toks = TOKENS[:12]
        for t in itertools.product(toks, repeat=n):
            s = "".join(t)
            if s in (".", "..") or "/" in s and False:
                continue
            out.append(s)
    return out + REALISTIC + BENCODEISH


def payload_tree(seed, single, small=False):
    if small:
        # no file longer than a piece: `piece layers` is an empty dictionary
        if single:
            return {(): world.content(seed, 0, P0)}
        return {("a",): world.content(seed, 0, P0),
                ("d", "b"): world.content(seed, 1, 5)}
    if single:
        return {(): world.content(seed, 0, P0 + 3)}
    return {("a",): world.content(seed, 0, 2 * P0 + 1),
            ("d", "b"): world.content(seed, 1, 5)}


def build(version, name, s, ann, url, extra, seed, single, small=False):
    tree = payload_tree(seed, single, small)
    if version == 1:
        meta = model.ref_v1(name, tree, P0)
    elif version == 2:
        meta = model.ref_v2(name, tree, P0, 16384)
    else:
        meta = model.ref_hybrid(name, tree, P0, 16384)
    if s in REALISTIC:
        # the URL itself, so that its own last characters end the parameter
        t = [model.u(s + x) for x in ("", "/b", "r")]
        w = [model.u(s + x) for x in ("", "t")]
        t = [t[1], t[2], t[0]]
    else:
        t = [model.u(f"{s}t{i}") for i in range(3)]
        w = [model.u(f"{s}w{i}") for i in range(2)]
    if ann == "announce":
        meta[b"announce"] = t[0]
    elif ann == "list1":
        meta[b"announce-list"] = [[t[0], t[1]]]
    elif ann == "list2":
        meta[b"announce-list"] = [[t[0]], [t[1], t[2]]]
    elif ann == "both":
        meta[b"announce"] = t[0]
        meta[b"announce-list"] = [[t[0], t[1]]]
    elif ann == "both-differ":
        meta[b"announce"] = t[2]
        meta[b"announce-list"] = [[t[0]], [t[1]]]
    if url == "list0":
        meta[b"url-list"] = []
    elif url == "list1":
        meta[b"url-list"] = [w[0]]
    elif url == "list2":
        meta[b"url-list"] = [w[0], w[1]]
    elif url == "string":
        meta[b"url-list"] = w[0]
    if extra in SHADOWS:
        x = model.u(s)
        for k in SHADOWS[extra]:
            if k == b"announce":
                meta[b"info"][k] = x + b"info-level-t"
            elif k == b"announce-list":
                meta[b"info"][k] = [[x + b"info-level-t0"],
                                    [x + b"info-level-t1"]]
            elif k == b"url-list":
                meta[b"info"][k] = [x + b"info-level-w0", x + b"info-level-w1"]
            elif k == b"announce-list:empty":
                meta[b"info"][b"announce-list"] = []
            elif k == b"url-list:string":
                meta[b"info"][b"url-list"] = x + b"info-level-w"
    if extra == "extra":
        meta[b"info"][b"x-unknown"] = [b"\xff\xfe", 3, {b"k": b"\x80"}]
        meta[b"info"][b"source"] = model.u(s)
        meta[b"zz-top"] = b"\xc3"
        meta[b"created by"] = b"ref " + model.u(s)
        meta[b"comment"] = model.u(s)
    return bencode.encode(meta)


def parse(uri):
    if not uri.startswith("magnet:?"):
        raise ValueError("no magnet:? prefix")
    q = uri[len("magnet:?"):]
    return parse_qsl(q, keep_blank_values=True, strict_parsing=True,
                     encoding="utf-8", errors="strict")


def judge(uri, raw, version_req):
    probs = []
    xt, dn, tr, ws = model.magnet_model(raw, version_req)
    try:
        pairs = parse(uri)
    except ValueError as e:
        return [("uri-not-parseable", str(e)[:80])]
    got = {"xt": [], "dn": [], "tr": [], "ws": []}
    for k, v in pairs:
        if k not in got:
            probs.append(("unexpected-parameter", k))
        else:
            got[k].append(v)
    if set(got["xt"]) != xt or len(got["xt"]) != len(xt):
        probs.append(("xt-wrong", (sorted(got["xt"]), sorted(xt))))
    if got["dn"] != [dn.decode("utf-8")]:
        probs.append(("dn-wrong", got["dn"]))
    if got["tr"] != [x.decode("utf-8") for x in tr]:
        probs.append(("tr-wrong", got["tr"][:4]))
    if got["ws"] != [x.decode("utf-8") for x in ws]:
        probs.append(("ws-wrong", got["ws"][:4]))
    return probs


class MagnetCheck:
    id = "C11"

    def __init__(self):
        self.assumptions = [
            "foreign metafiles are canonical bencoding from the reference "
            "encoder; key sets = {announce forms} x {url-list forms} x "
            "{unknown info keys incl. non-UTF-8 byte strings}",
            "info dictionaries that carry extra keys NAMED announce / "
            "announce-list / url-list (all three at once; thorough: also each "
            "alone, an empty info-level announce-list and a string-valued "
            "info-level url-list), for the one-token strings, crossed with "
            "every announce form x url-list form, so each namesake occurs with "
            "and without its top-level counterpart: tr / ws come from the "
            "top-level keys only",
            "names and URLs: every string of length <= 2 (thorough 3) over an "
            "alphabet of URL-significant and non-ASCII tokens; all valid UTF-8",
            "version requests: automatic for all; 1, 2, 3 for hybrids; the URI "
            "printed by `create --magnet` is judged as an automatic request",
            "a few whole realistic URLs so that ordinary URL endings occur",
            "path group: the metafile stored under names with and without "
            "the .torrent suffix, with other metafiles beside it under the "
            "derived names, through library (str/Path/relative), CLI (both "
            "sub-command spellings) and the Namespace handler",
            "tr = flattened announce-list when present, else announce; a "
            "string url-list is one URL",
            "calling styles (group `styles`): reference-encoded and own "
            "metafiles of every version x every version request the metafile "
            "can satisfy (0 and its own version for v1-only / v2-only; 0, 1, "
            "2, 3 for hybrids) x the ways of handing the request over: "
            "commands.magnet and the package attribute torrentfile.magnet "
            "with the version by keyword, positionally (second argument), "
            "all-keyword in both orders, through *args, omitted (automatic "
            "only); get_magnet(Namespace) with meta_version as digit string "
            "and as int; the command line with the flag after / before the "
            "path and in the --flag=value spelling; the version is an int "
            "wherever the documented signature magnet(metafile, version=0) "
            "takes one (a digit string handed directly to magnet() is outside "
            "the signature and is not driven)",
        ]
        self.rule = (
            "full product version x single/dir x announce form x url-list form "
            "x extra keys (unknown ones | info-level namesakes of the tracker "
            "and web-seed keys) x string x version request x route (library | CLI "
            "for a sub-product); state = one distinct metafile; transition = "
            "one magnet() call of the real code; URI parsed with urllib and "
            "compared with the reference model computed from the raw bytes; "
            "plus the calling-style product (metafile x satisfiable version "
            "request x keyword | positional | Namespace | command-line style) "
            "judged by the same oracle")

    def groups(self, tier, seed):
        gs = []
        for version in (1, 2, 3):
            for ann in ANN_FORMS:
                for url in URL_FORMS:
                    gs.append({"kind": "ref", "version": version, "ann": ann,
                               "url": url, "seed": seed, "tier": tier})
        gs.append({"kind": "own", "seed": seed, "tier": tier})
        gs.append({"kind": "paths", "seed": seed, "tier": tier})
        gs.append({"kind": "styles", "seed": seed, "tier": tier})
        return gs

    def run_case(self, raw, version_req, route, work):
        path = os.path.join(work, "m.torrent")
        with open(path, "wb") as f:
            f.write(raw)
        try:
            if route == "lib":
                with tf.quiet():
                    uri = tf.commands.magnet(path, version=version_req)
            else:
                argv = ["magnet", path]
                if version_req:
                    argv += ["--meta-version", str(version_req)]
                uri = tf.execute(argv)
        except Exception as e:  # noqa
            return [("magnet-raised:" + type(e).__name__, str(e)[:100])]
        return judge(uri, raw, version_req)

    def run_group(self, g):
        res = core.Result()
        seed = g["seed"]
        work = world.fresh_dir()
        if g["kind"] == "own":
            return self.run_own(g, res, work)
        if g["kind"] == "paths":
            return self.run_paths(g, res, work)
        if g["kind"] == "styles":
            return self.run_styles(g, res, work)
        version = g["version"]
        reqs = [0] if version != 3 else [0, 1, 2, 3]
        shadows = ["shadow"] if g["tier"] == "quick" else list(SHADOWS)
        for s in strings(g["tier"]):
            for extra in EXTRA + ["small"] + shadows:
                for single in (False, True):
                    if single and extra == "extra":
                        continue
                    if (extra == "small" or extra in SHADOWS) and len(s) != 1:
                        continue
                    raw = build(version, s, s, g["ann"], g["url"],
                                "plain" if extra == "small" else extra,
                                seed, single, small=extra == "small")
                    res.states += 1
                    for vr in reqs:
                        routes = ["lib"]
                        if (len(s) == 1 or s in BENCODEISH) and \
                                (extra in ("plain", "small") or
                                 extra in SHADOWS):
                            routes.append("cli")
                        for route in routes:
                            probs = self.run_case(raw, vr, route, work)
                            res.transitions += 1
                            res.evals += 1
                            res.validated += 1
                            res.outcomes["ok" if not probs else
                                         probs[0][0]] += 1
                            case = {"kind": "ref", "version": version,
                                    "s": s, "ann": g["ann"], "url": g["url"],
                                    "extra": extra, "single": single,
                                    "req": vr, "route": route, "seed": seed}
                            for p, d in probs:
                                res.violation(
                                    f"C11|{route}|{p}|v{version}|"
                                    f"ann={g['ann']}|url={g['url']}", case, d)
            res.sample({"version": version, "ann": g["ann"], "url": g["url"],
                        "string": s})
        return res

    def run_paths(self, g, res, work, only=None):
        """The metafile's own path spelling and its neighbours: the URI is
        that of the file at the path given, whatever lies next to it."""
        import pathlib
        from argparse import Namespace
        seed = g["seed"]
        for version in (1, 2, 3):
            raw = build(version, "given", "g", "list2", "list2", "plain",
                        seed, False)
            for nv in (1, 2, 3):
                if nv == version and version != 1:
                    continue
                other = build(nv, "neighbour", "n", "announce", "list1",
                              "plain", seed + 1, True)
                for fname in PATH_NAMES:
                    for route in PATH_ROUTES:
                        case = {"kind": "paths", "version": version,
                                "nv": nv, "fname": fname, "route": route,
                                "seed": seed}
                        if only is not None and only != case:
                            continue
                        d = world.fresh_dir()
                        path = os.path.join(d, fname)
                        os.makedirs(os.path.dirname(path), exist_ok=True)
                        with open(path, "wb") as f:
                            f.write(raw)
                        for q in neighbours(d, fname):
                            if not os.path.lexists(q):
                                with open(q, "wb") as f:
                                    f.write(other)
                        reqs = [0] if version != 3 else [0, 1, 2, 3]
                        for vr in reqs:
                            cwd = os.getcwd()
                            try:
                                arg = path
                                if route.endswith("-rel"):
                                    os.chdir(d)
                                    arg = fname
                                if route.startswith("lib-path"):
                                    arg = pathlib.Path(arg)
                                if route.startswith("lib"):
                                    with tf.quiet():
                                        uri = tf.commands.magnet(
                                            arg, version=vr)
                                elif route.startswith("ns"):
                                    with tf.quiet():
                                        uri = tf.commands.get_magnet(
                                            Namespace(metafile=arg,
                                                      meta_version=str(vr)))
                                else:
                                    argv = ["m" if route.startswith("cli-m")
                                            else "magnet", arg]
                                    if vr:
                                        argv += ["--meta-version", str(vr)]
                                    uri = tf.execute(argv)
                                probs = judge(uri, raw, vr)
                            except Exception as e:  # noqa
                                probs = [("magnet-raised:" +
                                          type(e).__name__, str(e)[:100])]
                            finally:
                                os.chdir(cwd)
                            res.transitions += 1
                            res.evals += 1
                            res.validated += 1
                            res.outcomes["ok" if not probs else
                                         probs[0][0]] += 1
                            for p, dd in probs:
                                res.violation(
                                    f"C11|{route}|{p}|v{version}|path",
                                    dict(case, req=vr), dd)
                        res.states += 1
        return res

    def style_metafiles(self, seed):
        """(label, version, raw bytes) of the metafiles of the style group:
        reference-encoded ones and ones created by the code itself."""
        out = []
        for version in (1, 2, 3):
            for single in (False, True):
                for ann, url in (("list2", "list2"), ("none", "absent")):
                    out.append((f"ref-v{version}-{'single' if single else 'dir'}"
                                f"-{ann}-{url}", version,
                                build(version, "st & yle", "s=", ann, url,
                                      "plain", seed, single)))
        files = [(("a",), world.content(seed, 0, 2 * P0 + 1)),
                 (("d", "b"), world.content(seed, 1, 5))]
        for creator, version in (("TorrentFile", 1), ("Assembler2", 2),
                                 ("Assembler3", 3), ("TorrentFileHybrid", 3)):
            parent = world.fresh_dir()
            root = world.materialize(files, parent, name="own name")
            tf.reset_process_state()
            raw = tf.create(creator, root, os.path.join(parent, "o.torrent"),
                            P0, announce=["http://t0/a?x=1&y=2", "udp://t1"],
                            url_list=["http://w0/ +"])
            out.append(("own-" + creator, version, raw))
        return out

    def run_styles(self, g, res, work, only=None):
        """Every calling style x every version request the metafile can
        satisfy: the URI depends on the request, not on how it was handed
        over (keyword / positional / Namespace / command line)."""
        seed = g["seed"]
        for label, version, raw in self.style_metafiles(seed):
            reqs = {1: [0, 1], 2: [0, 2], 3: [0, 1, 2, 3]}[version]
            path = os.path.join(world.fresh_dir(), "m.torrent")
            with open(path, "wb") as f:
                f.write(raw)
            res.states += 1
            for vr in reqs:
                for style in STYLES:
                    if style == "default" and vr != 0:
                        continue
                    case = {"kind": "styles", "label": label, "req": vr,
                            "style": style, "seed": seed}
                    if only is not None and only != case:
                        continue
                    try:
                        uri = call_style(style, path, vr)
                        probs = judge(uri, raw, vr)
                    except core.InfraError:
                        raise
                    except BaseException as e:  # noqa (argparse exits)
                        probs = [("magnet-raised:" + type(e).__name__,
                                  str(e)[:100])]
                    res.transitions += 1
                    res.evals += 1
                    res.validated += 1
                    res.outcomes["style:" + ("ok" if not probs else
                                             probs[0][0])] += 1
                    for p, d in probs:
                        res.violation(
                            f"C11|style:{style}|{p}|v{version}|req={vr}",
                            case, d)
        res.sample({"kind": "styles", "styles": STYLES})
        return res

    def run_own(self, g, res, work):
        """Metafiles created and edited by torrentfile itself."""
        seed = g["seed"]
        files = [(("a",), world.content(seed, 0, 2 * P0 + 1)),
                 (("d", "b"), world.content(seed, 1, 5))]
        for s in strings("quick")[:40] + BENCODEISH:
            name = "n" + s.replace("/", "_")
            parent = world.fresh_dir()
            try:
                root = world.materialize(files, parent, name=name)
            except OSError:
                continue
            for creator in ("TorrentFile", "Assembler2", "Assembler3"):
                tf.reset_process_state()
                out = os.path.join(parent, "o.torrent")
                raw = tf.create(creator, root, out, P0,
                                announce=[f"{s}t0", f"{s}t1"],
                                url_list=[f"{s}w0"], comment=s)
                res.states += 1
                stages = [("created", raw)]
                # the URI printed by `create --magnet`
                if creator in ("TorrentFile", "Assembler2", "Assembler3"):
                    import io
                    import sys
                    ver = {"TorrentFile": "1", "Assembler2": "2",
                           "Assembler3": "3"}[creator]
                    out2 = os.path.join(parent, "cm.torrent")
                    buf = io.StringIO()
                    so = sys.stdout
                    try:
                        sys.stdout = buf
                        tf.cli.execute(["create", root, "-o", out2,
                                        "--meta-version", ver, "--magnet",
                                        "--prog", "0", "--piece-length",
                                        str(P0), "-a", f"{s}t0"])
                    finally:
                        sys.stdout = so
                    uris = [ln.strip() for ln in buf.getvalue().splitlines()
                            if ln.strip().startswith("magnet:?")]
                    with open(out2, "rb") as f:
                        raw2 = f.read()
                    probs = [("no-uri-printed", None)] if not uris else \
                        judge(uris[-1], raw2, 0)
                    res.transitions += 1
                    res.evals += 1
                    res.validated += 1
                    res.outcomes["ok" if not probs else probs[0][0]] += 1
                    for p, d in probs:
                        res.violation(
                            f"C11|create--magnet|{p}|v{ver}",
                            {"kind": "own", "creator": creator, "s": s,
                             "stage": "create--magnet", "req": 0,
                             "seed": seed}, d)
                with tf.quiet():
                    tf.edit.edit_torrent(out, {
                        "announce": [f"{s}T0"], "url-list": [f"{s}W0",
                                                             f"{s}W1"],
                        "httpseeds": None, "comment": None, "source": s,
                        "private": None})
                with open(out, "rb") as f:
                    stages.append(("edited", f.read()))
                for stage, r in stages:
                    reqs = [0, 1, 2, 3] if creator == "Assembler3" else [0]
                    for vr in reqs:
                        probs = self.run_case(r, vr, "lib", work)
                        res.transitions += 1
                        res.evals += 1
                        res.validated += 1
                        res.outcomes["ok" if not probs else probs[0][0]] += 1
                        for p, d in probs:
                            res.violation(
                                f"C11|lib|{p}|own-{creator}-{stage}",
                                {"kind": "own", "creator": creator, "s": s,
                                 "stage": stage, "req": vr, "seed": seed}, d)
        return res

    def replay(self, case):
        work = world.fresh_dir()
        if case["kind"] == "paths":
            res = core.Result()
            only = {k: v for k, v in case.items() if k != "req"}
            self.run_paths({"seed": case["seed"]}, res, work, only=only)
            return [{"sig": v["sig"], "detail": v["detail"]}
                    for v in res.violations if v["case"]["req"] == case["req"]]
        if case["kind"] == "styles":
            res = core.Result()
            self.run_styles({"seed": case["seed"]}, res, work, only=dict(case))
            return [{"sig": v["sig"], "detail": v["detail"]}
                    for v in res.violations]
        if case["kind"] == "ref":
            raw = build(case["version"], case["s"], case["s"], case["ann"],
                        case["url"], "plain" if case["extra"] == "small"
                        else case["extra"], case["seed"], case["single"],
                        small=case["extra"] == "small")
            probs = self.run_case(raw, case["req"], case["route"], work)
            return [{"sig": "C11|" + p, "detail": d} for p, d in probs]
        res = core.Result()
        self.run_own({"seed": case["seed"]}, res, work)
        return [{"sig": v["sig"], "detail": v["detail"]}
                for v in res.violations if v["case"]["s"] == case["s"]]


def make(pid):
    return MagnetCheck()
