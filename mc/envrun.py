"""Process-environment axis: run one operation of the real code in a child
interpreter under a named environment and hand back what it observed.

The environment is a small enumerated alphabet (ENVS); `default` is the
baseline every other member is compared with.  A check supplies a snippet of
Python (the operation) that leaves its observation in the variable `OBS`
(anything JSON-able; bytes as hex); the child prints it as one JSON line on
a private file descriptor, so that the operation's own stdout / stderr can be
closed, full, a pipe or a narrow terminal without disturbing the report.

Nothing here samples: a check runs every member of ENVS (or of the subset it
names) for every operation of its sub-catalogue.
"""
import json
import os
import subprocess
import sys
import threading

from mc import tf

PY = sys.executable if os.path.basename(sys.executable).startswith("python") \
    else "/venv/bin/python"

# name -> dict(env=..., flags=[...], rm_cwd=bool, stdout=..., pre=python source
# run in the child before the operation)
ENVS = {
    "default": {},
    # terminal widths the progress bar adapts to
    "cols30": {"env": {"COLUMNS": "30", "LINES": "10"}},
    "cols12": {"env": {"COLUMNS": "12", "LINES": "5"}},
    "cols200": {"env": {"COLUMNS": "200"}},
    # asserts stripped / docstrings stripped
    "opt1": {"flags": ["-O"]},
    "opt2": {"env": {"PYTHONOPTIMIZE": "2"}},
    # an ASCII filesystem / locale encoding (3.12 needs all three switches)
    "ascii-fs": {"env": {"LC_ALL": "C", "LANG": "C", "PYTHONUTF8": "0",
                         "PYTHONCOERCECLOCALE": "0",
                         "PYTHONIOENCODING": "utf-8"}},
    "ascii-all": {"env": {"LC_ALL": "C", "LANG": "C", "PYTHONUTF8": "0",
                          "PYTHONCOERCECLOCALE": "0"}},
    "posix-locale": {"env": {"LC_ALL": "POSIX"}},
    # stdout that is not there, refuses data, or is a plain pipe / file
    "stdout-closed": {"stdout": "closed"},
    "stdout-devfull": {"stdout": "devfull"},
    "stdout-file": {"stdout": "file"},
    "stdout-ascii": {"env": {"PYTHONIOENCODING": "ascii"}},
    # the working directory has been removed (all paths absolute)
    "cwd-removed": {"rm_cwd": True},
    # warnings are errors; debug switch of the library on
    "w-error": {"flags": ["-W", "error"]},
    "tf-debug": {"env": {"TORRENTFILE_DEBUG": "ON"}},
    # a low recursion limit, few file descriptors, an unusual umask, no HOME
    "reclimit": {"pre": "import sys; sys.setrecursionlimit(120)"},
    "nofile64": {"pre": "import resource; resource.setrlimit("
                        "resource.RLIMIT_NOFILE, (64, 64))"},
    "umask077": {"pre": "import os; os.umask(0o077)"},
    "umask000": {"pre": "import os; os.umask(0)"},
    "no-home": {"unset": ["HOME", "XDG_CONFIG_HOME", "TMPDIR", "USER"]},
    "tz-far": {"env": {"TZ": "Pacific/Kiritimati"}},
    "smallbuf": {"pre": "import io; io.DEFAULT_BUFFER_SIZE = 512"},
    # stdout is a regular file and the process may not grow any file beyond
    # 8 KiB (ulimit -f): the progress display fails part way through a file
    # (Python ignores SIGXFSZ, the write raises EFBIG)
    "stdout-fsize": {"stdout": "regular",
                     "pre": "import resource; resource.setrlimit("
                            "resource.RLIMIT_FSIZE, (8192, 8192))"},
}

_WRAP = r'''
import json, os, sys
_fd = int(os.environ.pop("VERIF_OBS_FD"))
sys.path.insert(0, {repo!r})
{pre}
OBS = None
try:
{body}
    _rep = {{"ok": True, "obs": OBS}}
except BaseException as _e:  # noqa
    _rep = {{"ok": False, "exc": type(_e).__name__, "msg": str(_e)[:300],
             "obs": OBS}}
def _j(x):
    if isinstance(x, (bytes, bytearray)):
        return {{"__hex__": bytes(x).hex()}}
    if isinstance(x, dict):
        return {{str(k): _j(v) for k, v in x.items()}}
    if isinstance(x, (list, tuple)):
        return [_j(v) for v in x]
    if isinstance(x, (str, int, float, bool)) or x is None:
        return x
    return repr(x)
os.write(_fd, (json.dumps(_j(_rep)) + "\n").encode())
os.close(_fd)
'''


def unhex(x):
    if isinstance(x, dict):
        if set(x) == {"__hex__"}:
            return bytes.fromhex(x["__hex__"])
        return {k: unhex(v) for k, v in x.items()}
    if isinstance(x, list):
        return [unhex(v) for v in x]
    return x


def run(envname, body, cwd=None, timeout=300):
    """Run `body` (Python source, indented by run()) in a child interpreter
    under ENVS[envname].  Returns {"ok", "obs", "exc", "msg", "rc", "err"};
    "report" is False if the child died before reporting; "out" is the tail
    of what the operation wrote to stdout (None unless stdout is a pipe)."""
    spec = ENVS[envname]
    env = {k: v for k, v in os.environ.items()
           if k in ("PATH", "HOME", "USER", "TMPDIR", "LANG", "LC_ALL",
                    "VERIF_SCRATCH", "TORRENTFILE_DEBUG")}
    env["PYTHONHASHSEED"] = "0"
    env.setdefault("TORRENTFILE_DEBUG", "OFF")
    env.update(spec.get("env", {}))
    for k in spec.get("unset", ()):
        env.pop(k, None)
    code = _WRAP.format(repo=tf.REPO, pre=spec.get("pre", ""),
                        body="\n".join("    " + ln
                                       for ln in body.splitlines()))
    r, w = os.pipe()
    os.set_inheritable(w, True)
    env["VERIF_OBS_FD"] = str(w)
    kind = spec.get("stdout", "pipe")
    out = subprocess.PIPE
    opened = None
    if kind == "devfull":
        opened = open("/dev/full", "w")
        out = opened
    elif kind == "file":
        opened = open(os.devnull, "w")
        out = opened
    elif kind == "regular":
        from mc import world
        opened = open(os.path.join(world.fresh_dir("envout_"), "stdout"), "w")
        out = opened

    rm_cwd = spec.get("rm_cwd", False)

    def pre():
        if kind == "closed":
            os.close(1)
        if rm_cwd:
            import tempfile
            d = tempfile.mkdtemp(dir="/dev/shm")
            os.chdir(d)
            os.rmdir(d)

    # the report pipe is drained while the child runs (a report larger than
    # the pipe buffer would otherwise block the child for ever)
    chunks = []

    def drain():
        while True:
            chunk = os.read(r, 1 << 16)
            if not chunk:
                break
            chunks.append(chunk)

    th = None
    sout = None
    try:
        p = subprocess.Popen([PY] + list(spec.get("flags", ())) + ["-c", code],
                             env=env, cwd=cwd, stdout=out,
                             stderr=subprocess.PIPE, pass_fds=(w,),
                             preexec_fn=pre)
        os.close(w)
        w = None
        th = threading.Thread(target=drain)
        th.start()
        try:
            _o, e_ = p.communicate(timeout=timeout)
            rc, err = p.returncode, e_.decode("utf-8", "replace")[-600:]
            # what the operation wrote to its stdout (only when it is a pipe)
            sout = _o.decode("utf-8", "replace")[-4000:] \
                if _o is not None else None
        except subprocess.TimeoutExpired:
            p.kill()
            p.communicate()
            rc, err, sout = -999, "timeout", None
    finally:
        if w is not None:
            os.close(w)
        if th is not None:
            th.join()
        if opened:
            opened.close()
    os.close(r)
    data = b"".join(chunks)
    rep = {"ok": False, "obs": None, "exc": None, "msg": None}
    reported = False
    if data.strip():
        try:
            rep = unhex(json.loads(data.decode().splitlines()[-1]))
            reported = True
        except ValueError:
            pass
    rep.update({"rc": rc, "err": err, "report": reported, "out": sout})
    return rep
