"""Runner: shards groups of cases over worker processes, aggregates coverage,
writes evidence and replay files, applies the known-findings list.

A check module provides an object with
    id, level_text, assumptions, rule (strings / lists)
    groups(tier, seed)            -> list of JSON-able group descriptors
    run_group(group)              -> Result (see below)
    replay(case)                  -> list of violation dicts (empty = holds)
Everything a group explores is executed on the real code; nothing is sampled.
"""
import collections
import hashlib
import json
import multiprocessing
import os
import subprocess
import sys
import time
import traceback

VERIF = os.path.dirname(os.path.dirname(os.path.abspath(__file__)))
# VERIF_OUT redirects evidence and replay files (used when the checks are
# pointed at a scratch copy carrying a seeded change; never by MANIFEST commands)
_OUT = os.environ.get("VERIF_OUT") or VERIF
EVIDENCE_DIR = os.path.join(_OUT, "evidence")
REPLAY_DIR = os.path.join(_OUT, "replays")
KNOWN = os.path.join(VERIF, "known_findings.json")
MAX_REPLAYS = 40


class InfraError(Exception):
    """The machinery (not the code under test) is broken -> exit 2."""


class Result:
    """Aggregated coverage of one group (mergeable)."""

    def __init__(self):
        self.evals = 0          # executions of real code judged by an oracle
        self.states = 0         # distinct canonical worlds / states
        self.transitions = 0    # operations executed on the real code
        self.validated = 0      # observations compared with the reference model
        self.conformance = 0    # S->R conformance replays
        self.outcomes = collections.Counter()
        self.violations = []    # dicts: sig, case, detail
        self.nviol = 0
        self.samples = []
        self.extra = collections.Counter()
        self.notes = set()

    def violation(self, sig, case, detail):
        self.nviol += 1
        self.outcomes["VIOLATION:" + sig] += 1
        per_sig = sum(1 for v in self.violations if v["sig"] == sig)
        if per_sig < 3 and len(self.violations) < 60:
            self.violations.append({"sig": sig, "case": case, "detail": detail})

    def sample(self, s):
        if len(self.samples) < 3:
            self.samples.append(s)

    def merge(self, o):
        self.evals += o.evals
        self.states += o.states
        self.transitions += o.transitions
        self.validated += o.validated
        self.conformance += o.conformance
        self.outcomes.update(o.outcomes)
        self.nviol += o.nviol
        seen = collections.Counter(v["sig"] for v in self.violations)
        for v in o.violations:
            if seen[v["sig"]] < 3 and len(self.violations) < 200:
                self.violations.append(v)
                seen[v["sig"]] += 1
        # one sample per merged group (up to a cap); the evidence writer picks
        # evenly spaced ones so that the samples span the catalogue
        for s in o.samples[:1]:
            if len(self.samples) < 4000:
                self.samples.append(s)
        for k, v in o.extra.items():
            if k.startswith("max_") or k.endswith("_completed"):
                self.extra[k] = max(self.extra.get(k, 0), v)
            else:
                self.extra[k] += v
        self.notes |= o.notes

    def digest(self):
        h = hashlib.sha256()
        h.update(repr((self.evals, self.states, self.transitions,
                       self.validated, sorted(self.outcomes.items()),
                       sorted(v["sig"] for v in self.violations))).encode())
        return h.hexdigest()


_CHECK = None


def _init_worker():
    from mc import world
    world.reset_scratch_for_child()
    import atexit
    atexit.register(world.cleanup_scratch)
    if _CHECK is not None and hasattr(_CHECK, "worker_init"):
        _CHECK.worker_init()


def _run(group):
    from mc import world
    try:
        res = _CHECK.run_group(group)
        return ("ok", group, res)
    except BaseException:  # noqa
        return ("err", group, traceback.format_exc())
    finally:
        # keep scratch small: drop everything the group left behind
        root = world._scratch_root
        if root and os.path.isdir(root):
            for n in os.listdir(root):
                p = os.path.join(root, n)
                import shutil
                shutil.rmtree(p, ignore_errors=True) if os.path.isdir(p) \
                    else os.remove(p)


def spread(items, n):
    """n evenly spaced elements of items (first and last included)."""
    if len(items) <= n:
        return list(items)
    return [items[(i * (len(items) - 1)) // (n - 1)] for i in range(n)]


def load_known():
    if not os.path.exists(KNOWN):
        return []
    with open(KNOWN) as f:
        return json.load(f)


def jsonable(x):
    if isinstance(x, (bytes, bytearray)):
        return {"__hex__": bytes(x).hex()}
    if isinstance(x, dict):
        return {(k if isinstance(k, str) else repr(k)): jsonable(v)
                for k, v in x.items()}
    if isinstance(x, (list, tuple)):
        return [jsonable(v) for v in x]
    if isinstance(x, (set, frozenset)):
        return sorted(jsonable(v) for v in x)
    if isinstance(x, (str, int, float, bool)) or x is None:
        return x
    return repr(x)


def write_replay(pid, v):
    d = os.path.join(REPLAY_DIR, pid)
    os.makedirs(d, exist_ok=True)
    body = {"property": pid, "sig": v["sig"], "case": jsonable(v["case"]),
            "detail": jsonable(v["detail"])}
    blob = json.dumps(body, sort_keys=True, indent=1)
    name = hashlib.sha256(blob.encode()).hexdigest()[:16] + ".json"
    path = os.path.join(d, name)
    with open(path, "w") as f:
        f.write(blob)
    return path


def validate_evidence(path):
    script = ("import json,sys,jsonschema;"
              "s=json.load(open('/root/.vp/EVIDENCE.schema.json'));"
              "jsonschema.validate(json.load(open(sys.argv[1])),s)")
    if not os.path.exists("/root/.vp/EVIDENCE.schema.json"):
        return
    for py in ("python3-vt", "/opt/veriftools/pyvenv/bin/python"):
        try:
            r = subprocess.run([py, "-c", script, path], capture_output=True,
                               text=True, timeout=120)
        except FileNotFoundError:
            continue
        if r.returncode != 0:
            raise InfraError("evidence does not validate: " + r.stderr[-800:])
        return


def run_check(check, tier, seed, jobs=None):
    global _CHECK
    t0 = time.time()
    _CHECK = check
    pid = check.id
    groups = list(check.groups(tier, seed))
    if not groups:
        raise InfraError("no groups")
    jobs = jobs or min(16, os.cpu_count() or 1)
    jobs = int(os.environ.get("VERIF_JOBS", jobs))
    total = Result()
    errors = []
    from mc import world
    world.scratch_root()      # workers nest their scratch below this root
    ctx = multiprocessing.get_context("fork")
    # determinism guard: first group is executed twice, in two workers
    work = [groups[0]] + groups
    first = []
    with ctx.Pool(jobs, initializer=_init_worker, maxtasksperchild=None) as pool:
        for n, (status, group, res) in enumerate(
                pool.imap(_run, work, chunksize=1)):
            if status == "err":
                errors.append((group, res))
                continue
            if n < 2:
                first.append(res.digest())
                if n == 0:
                    continue
            total.merge(res)
    if errors:
        sys.stderr.write(f"INFRA: {len(errors)} group(s) crashed; first:\n"
                         f"{errors[0][0]}\n{errors[0][1]}\n")
        # a crashed group makes the run incomplete (exit 2) - unless other
        # groups found violations: those are real and are reported (exit 1),
        # with the crash noted in the evidence
        if not total.violations:
            raise InfraError("worker crash")
        total.notes.add(f"{len(errors)} group(s) crashed and were not "
                        "explored: " + errors[0][1].strip().splitlines()[-1][:200])
    if len(first) == 2 and first[0] != first[1]:
        raise InfraError("non-deterministic: the same group gave two different "
                         "observations")
    if hasattr(check, "finalize"):
        check.finalize(total, tier, seed)

    known = [k for k in load_known() if k.get("property") == pid]
    known_sigs = {k["signature"]: k for k in known if k.get("status") == "known"}
    reported = 0
    unlisted = 0
    seen_known = set()
    by_sig = collections.OrderedDict()
    for v in total.violations:
        by_sig.setdefault(v["sig"], []).append(v)
    sig_counts = {k[len("VIOLATION:"):]: c for k, c in total.outcomes.items()
                  if k.startswith("VIOLATION:")}
    for sig, vs in by_sig.items():
        if sig in known_sigs:
            if sig not in seen_known:
                seen_known.add(sig)
                print(f"KNOWN-FINDING: property={pid} {sig} "
                      f"({sig_counts.get(sig, len(vs))} cases) "
                      f"{known_sigs[sig].get('what', '')}")
            continue
        unlisted += sig_counts.get(sig, len(vs))
        for v in vs[:2]:
            if reported < MAX_REPLAYS:
                path = write_replay(pid, v)
                print(f"VIOLATION property={pid} replay={path}")
                print(f"  sig: {sig}  ({sig_counts.get(sig, len(vs))} cases)")
                reported += 1
    wall = time.time() - t0
    distinct_outcomes = len([k for k in total.outcomes])
    cov = {
        "states": total.states,
        "transitions": total.transitions,
        "traces_validated_against_impl": total.validated + total.conformance,
        "samples": jsonable(spread(total.samples, 8)) or ["(none)"],
        "exhaustive": not errors,
        "evaluations": total.evals,
        "distinct_nontrivial": total.extra.get("nontrivial", total.states),
        "rule": check.rule + " || non-trivial: " + getattr(
            check, "nontrivial_rule",
            "every enumerated case is distinct by construction (nested "
            "product over a catalogue, canonical key per case) and exercises "
            "the real code; counted = distinct cases"),
        "groups": len(groups),
        "conformance_replays_S_to_R": total.conformance,
        "distinct_observed_outcomes": distinct_outcomes,
        "outcome_histogram": dict(total.outcomes.most_common(25)),
        "workers": jobs,
        "determinism_guard": "first group executed twice in two workers: "
                             "identical digests",
    }
    for k, v in total.extra.items():
        if k != "nontrivial":
            cov[k] = v
    if total.notes:
        cov["notes"] = sorted(total.notes)
    if hasattr(check, "coverage_extra"):
        cov.update(check.coverage_extra(tier, seed))
    ev = {
        "property_id": pid,
        "tier": tier,
        "seed": seed,
        "level": "model_checking",
        "coverage": cov,
        "assumptions": list(check.assumptions),
        "wall_s": round(wall, 3),
        "violations": unlisted,
        "known_findings_reproduced": sorted(seen_known),
    }
    os.makedirs(EVIDENCE_DIR, exist_ok=True)
    evpath = os.path.join(EVIDENCE_DIR, pid + ".json")
    with open(evpath, "w") as f:
        json.dump(ev, f, indent=1, sort_keys=True)
    validate_evidence(evpath)
    print(f"[{pid}] tier={tier} seed={seed} groups={len(groups)} "
          f"states={total.states} transitions={total.transitions} "
          f"validated={total.validated}+{total.conformance} "
          f"outcomes={distinct_outcomes} violations={unlisted} "
          f"known={len(seen_known)} wall={wall:.1f}s")
    return 1 if unlisted else 0


def run_replay(check, path):
    with open(path) as f:
        body = json.load(f)
    vs = check.replay(unjson(body["case"]))
    if vs:
        for v in vs:
            print(f"VIOLATION property={check.id} replay={path}")
            print("  sig:", v["sig"])
            print("  detail:", json.dumps(jsonable(v["detail"]))[:2000])
        return 1
    print(f"[{check.id}] replay holds: {path}")
    return 0


def unjson(x):
    if isinstance(x, dict):
        if set(x) == {"__hex__"}:
            return bytes.fromhex(x["__hex__"])
        return {k: unjson(v) for k, v in x.items()}
    if isinstance(x, list):
        return [unjson(v) for v in x]
    return x
