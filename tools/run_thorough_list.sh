#!/bin/sh
# tools/run_thorough_list.sh <ID>... : thorough tier for the named checks, one summary line each
cd "$(dirname "$0")/.." || exit 2
rc=0
for p in "$@"; do
  out=$(bin/check $p --tier thorough 2>&1); r=$?
  echo "$out" | grep -E "^\[|VIOLATION|INFRA" | tail -3
  echo "$out" | grep -c "^KNOWN-FINDING" | sed "s/^/$p known-finding lines: /"
  [ $r -ne 0 ] && { echo "$p exit=$r"; rc=1; }
done
exit $rc
