#!/usr/bin/env python3
"""Regenerate /verif/MANIFEST.json from the table below (keeps it valid)."""
import json
import os
import subprocess
import sys

HERE = os.path.dirname(os.path.dirname(os.path.abspath(__file__)))
sys.path.insert(0, HERE)

BASELINE = ("cd /repo && /venv/bin/python -m pytest -ra -q -p no:cacheprovider "
            "--timeout=900 --continue-on-collection-errors")

# id -> (engine, technique, level text, note, design ref)
CLAIMS = {}


def claim(pid, engine, technique, text, note, ref):
    CLAIMS[pid] = (engine, technique, text, note, ref)


E1 = ("bounded-exhaustive enumeration of executions of the real code over "
      "worlds (shape x sizes x piece length), at real scale on the boundary "
      "alphabet and in a scaled instantiation (BLOCK_SIZE=2) over every byte "
      "size, each judged against an independent BEP reference model; S worlds "
      "conformance-replayed at real scale")

claim("C01", "E1", "explicit enumeration of input worlds, real code executed "
      "per world, reference-model oracle; scaled model + conformance replay",
      E1, "reference BEP 3 model; sizes/trees within the stated bounds", "4/C01")
claim("C02", "E1", "explicit enumeration of input worlds, two-formulation "
      "BEP 52 reference model; scaled model + conformance replay",
      E1, "reference BEP 52 model (two formulations cross-checked)", "4/C02")
claim("C03", "E1", "explicit enumeration of input worlds, reference-model "
      "oracle on the decoded hybrid metafile; scaled model + conformance replay",
      E1, "reference BEP 3/47/52 models", "4/C03")
claim("C10", "E1", "explicit enumeration of input worlds; differential oracle "
      "between creators and between hashers",
      E1, "differential: no reference needed beyond canonical encoding", "4/C10")
claim("C15", "E1", "explicit enumeration of input worlds, BEP 47 reference "
      "walk over the decoded file list; scaled model + conformance replay",
      E1, "reference BEP 3/47 model", "4/C15")
REC = ("bounded-exhaustive enumeration of (world, metafile family, content "
       "path, damage set) with every flip offset / truncation length / "
       "removal in the scaled instantiation and a boundary sample at real "
       "scale; each Checker run compared with the reference recheck model")
for pid in ("C04", "C05", "C16"):
    claim(pid, "E1", "explicit enumeration of worlds x metafile families x "
          "damage sets on the real code; reference recheck model; scaled "
          "model with every S disagreement confirmed at real scale",
          REC, "reference recheck model; damage sets of size <=1 (quick) / 2 "
          "(thorough)", "4/C04-C05-C16")


def registered():
    out = subprocess.run(
        ["/venv/bin/python", "-c",
         "from mc.main import registry; print(' '.join(sorted(registry())))"],
        cwd=HERE, capture_output=True, text=True,
        env=dict(os.environ, PYTHONPATH=HERE))
    return out.stdout.split()


def main():
    props = [json.loads(l) for l in open(os.path.join(HERE, "properties.jsonl"))]
    reg = set(registered())
    checks = []
    na = []
    for p in props:
        pid = p["id"]
        if pid in CLAIMS and pid in reg:
            engine, tech, text, note, ref = CLAIMS[pid]
            checks.append({
                "property_id": pid,
                "quick_cmd": f"bin/check {pid} --tier quick",
                "thorough_cmd": f"bin/check {pid} --tier thorough",
                "evidence_file": f"/verif/evidence/{pid}.json",
                "replay_cmd_template": f"bin/check {pid} --replay {{path}}",
                "engine": engine,
                "level_claimed": {"category": "model_checking", "text": text,
                                  "design_ref": "DESIGN.md section " + ref},
                "level_note": note,
                "technique": tech,
            })
        else:
            na.append({"property_id": pid,
                       "reason": "check not built yet in this tree (work in "
                                 "progress; see DESIGN.md section 4)"})
    man = {
        "version": 1,
        "setup_cmd": "true",
        "hooks": {
            "guard": "TORRENTFILE_VERIF",
            "enable": "no source hooks: every seam is installed from the "
                      "harness by rebinding module attributes",
            "baseline_off_cmd": BASELINE,
            "source_commits": [],
            "add_only": True,
        },
        "engines": [
            {"name": "E1", "path": "mc/e1.py",
             "serves_properties": ["C01", "C02", "C03", "C04", "C05", "C10",
                                   "C13", "C14", "C15", "C16"],
             "kind_free_text": "bounded-exhaustive world enumeration on the "
                               "real code, real scale + scaled instantiation "
                               "with conformance replay"},
            {"name": "E2", "path": "mc/e2.py",
             "serves_properties": ["C08", "C17", "C18", "C19", "C20"],
             "kind_free_text": "deviation-bounded choice-point explorer "
                               "(environment answers, faults, crash points)"},
            {"name": "E3", "path": "mc/e3.py",
             "serves_properties": ["C06", "C07", "C09", "C14"],
             "kind_free_text": "explicit-state BFS over operation histories "
                               "re-executed on the real code"},
        ],
        "checks": checks,
        "not_applicable": na,
        "notes": "All checks: python (/venv/bin/python) importing torrentfile "
                 "from /repo's working tree; no build step; scratch under "
                 "/dev/shm; exit 0/1/2 = held / violation / machinery broken.",
    }
    with open(os.path.join(HERE, "MANIFEST.json"), "w") as f:
        json.dump(man, f, indent=1)
    print(f"claimed {len(checks)}, not claimed {len(na)}")


if __name__ == "__main__":
    main()
