"""C20 — a create option means the same via flag, configuration file or keyword.
Full product of option subsets x version x align x out; three routes; all CLI
argument orders for small subsets.  Side catalogues: hostile working
directories (env), content-root names, special option values (values), every
long option name as a configuration key (names), int / str forms of the
meta_version keyword per creator class (kwforms), the routes in a child
interpreter under every named process environment (penv, mc/envrun.py)."""
import itertools
import os

from mc import core, envrun, tf, world
from mc.ref import bencode

OPTION_VALUES = {
    "announce": [None, ["http://t1/announce"],
                 ["http://t1/announce", "http://t2/announce"]],
    "web-seed": [None, ["http://w1/x"], ["http://w1/x", "http://w2/y"]],
    "http-seed": [None, ["http://h1/x"], ["http://h1/x", "http://h2/y",
                                          "http://h3/z"]],
    "private": [None, True],
    "source": [None, "src"],
    "comment": [None, "a comment", "2024"],
    "piece-length": [None, "15", "32768"],
}
OPT_ORDER = list(OPTION_VALUES)
# names of content roots that look like something else
CONTENT_NAMES = ["Live: Vol 2", "http:", "udp:tracker", "c:",
                 "a=b", "x y", "#hash", "2024", "true", "None", "@file",
                 "a,b", "[config]", "top.torrent", "%41", "~user", "'q'"]
# characters inside a value (never at its ends) that one of the routes might
# take for structure
SPECIAL_MID = ["\x0b", "\x0c", "\x1c", "\x1d", "\x1e", "\x85", "\u2028",
               "\u2029", "=", ":", ";", "#", " ; ", " # ", "'", '"', ",",
               "\t", "  ", "[x]", "--private", "\\n", "\u00e9"]
# WHOLE values (the complete option value, not a character inside it), by
# class: words that a configuration reader might take for a boolean / a number
# / "nothing"; values with the interpolation characters of configparser;
# values beginning with '@' (argparse's arguments-file prefix).  `@notes`
# names a file that exists in the working directory, `@x` one that does not.
# Each entry: (class, value as text option, value as one entry of a list
# option).
WHOLE_VALUES = (
    [("bool-word", w, w) for w in
     ("true", "True", "false", "FALSE", "yes", "no", "on", "off", "1", "0",
      "none", "None", "null")] +
    [("percent", "100% legal", "http://h/a%20b"),
     ("percent", "50%", "http://h/a%"),
     ("percent", "a%%b", "http://h/a%%b"),
     ("percent", "%(x)s", "http://h/%(x)s"),
     ("percent", "${x}", "http://h/${x}")] +
    [("at-prefix", "@x", "@x"),
     ("at-prefix", "@notes", "@notes"),
     ("at-prefix", "@alice thanks", "@http://h/x")])
# values of `out` (relative to the working directory), same classes
OUT_VALUES = [("at-prefix", "@o.torrent"), ("at-prefix", "@notes"),
              ("bool-word", "true"), ("bool-word", "False"),
              ("percent", "a%20b.torrent"), ("percent", "100%.torrent"),
              ("percent", "%(x)s.torrent"), ("plain", "o.torrent")]
NOTES_FILE = ("notes", "planted text\n--private\n")
# dest of the create sub-parser -> documented option name
DOC_DEST = {"announce": "announce", "url_list": "web-seed",
            "httpseeds": "http-seed", "private": "private",
            "source": "source", "comment": "comment",
            "piece_length": "piece-length"}
# long option names of the create sub-parser as read from torrentfile/cli.py
# (name -> (dest, kind)); used for the documented names and when the live
# parser cannot be introspected.  `config` / `config-path` select the
# configuration route itself and are not enumerated as keys.
STATIC_LONG = {
    "announce": ("announce", "list"), "tracker": ("announce", "list"),
    "private": ("private", "flag"), "source": ("source", "text"),
    "magnet": ("magnet", "flag"), "comment": ("comment", "text"),
    "out": ("outfile", "text"), "prog": ("progress", "text"),
    "progress": ("progress", "text"),
    "meta-version": ("meta_version", "text"),
    "piece-length": ("piece_length", "text"),
    "web-seed": ("url_list", "list"), "http-seed": ("httpseeds", "list"),
    "align": ("align", "flag"),
}
ROUTE_SELECTORS = ("config", "config-path", "help")
LISTY = {"announce", "web-seed", "http-seed"}
FLAG = {"announce": "--announce", "web-seed": "--web-seed",
        "http-seed": "--http-seed", "private": "--private",
        "source": "--source", "comment": "--comment",
        "piece-length": "--piece-length"}
KW = {"announce": "announce", "web-seed": "url_list", "http-seed": "httpseeds",
      "private": "private", "source": "source", "comment": "comment",
      "piece-length": "piece_length"}


# process-environment axis (mc/envrun.py): one option at a time carrying text
# outside ASCII (UTF-8 in the configuration file, `str` for the flag and
# keyword routes), plus an all-ASCII control and a configuration file whose
# only non-ASCII text is a comment line
PENV_VALUES = {
    "comment": "Gr\u00fc\u00dfe \u2013 \u65e5\u672c\u8a9e",
    "source": "Trackh\u00e9r\u00f4",
    "announce": ["http://t1/a\u00f1nounce", "udp://t2:6969/\u65e5\u672c"],
    "web-seed": ["http://w1/f\u00efles/"],
    "http-seed": ["http://h1/s\u00e9ed.php", "http://h2/\u0436"],
}
PENV_OUT = "sortie-\u00e9\u97f3.torrent"
PENV_CFG_COMMENT = "# Gr\u00fc\u00dfe \u2013 \u65e5\u672c\u8a9e"
_PENV_BODY = r'''
import json, os
C = json.loads({blob!r})
from torrentfile import cli, torrent, utils
OBS = {{}}
for key, spec in C["runs"]:
    memo = utils.filelist_total
    if hasattr(memo, "cache"):
        memo.cache.clear()
    try:
        if isinstance(spec, dict):
            cls = torrent.TorrentFile if C["version"] == "1" \
                else torrent.TorrentAssembler
            cls(**spec).write()
        else:
            cli.execute(spec)
        OBS[key] = ["ok", None]
    except BaseException as e:
        OBS[key] = ["raised:" + type(e).__name__, str(e)[:100]]
'''


def payload(seed):
    return [(("a",), world.content(seed, 0, 20000)),
            (("d", "b"), world.content(seed, 1, 5))]


def chunks_of(opts, version, align):
    ch = []
    for o in OPT_ORDER:
        v = opts.get(o)
        if v is None:
            continue
        if o == "private":
            ch.append((["--private"], False))
        elif o in LISTY:
            ch.append(([FLAG[o]] + list(v), True))
        else:
            ch.append(([FLAG[o], v], False))
    ch.append((["--meta-version", version], False))
    if align:
        ch.append((["--align"], False))
    return ch


def expected_fields(opts, version, align):
    """Documented placement of each option: dict of checks on the plain meta."""
    def check(meta):
        probs = []
        info = meta.get(b"info", {})
        a = opts.get("announce")
        if a:
            if meta.get(b"announce") != a[0].encode():
                probs.append("announce-field")
            if meta.get(b"announce-list") != [[x.encode() for x in a]]:
                probs.append("announce-list-field")
        elif b"announce" in meta or b"announce-list" in meta:
            probs.append("announce-present-unasked")
        for o, key in (("web-seed", b"url-list"), ("http-seed", b"httpseeds")):
            v = opts.get(o)
            if v:
                if meta.get(key) != [x.encode() for x in v]:
                    probs.append(o + "-field")
            elif key in meta:
                probs.append(o + "-present-unasked")
        if opts.get("private"):
            if info.get(b"private") != 1:
                probs.append("private-field")
        elif b"private" in info:
            probs.append("private-present-unasked")
        for o in ("source", "comment"):
            v = opts.get(o)
            if v:
                if info.get(o.encode()) != v.encode():
                    probs.append(o + "-field")
            elif o.encode() in info:
                probs.append(o + "-present-unasked")
        pl = opts.get("piece-length")
        if pl:
            want = 1 << int(pl) if int(pl) < 64 else int(pl)
            if info.get(b"piece length") != want:
                probs.append("piece-length-field")
        has_v2 = info.get(b"meta version") == 2 and b"file tree" in info
        has_v1 = b"pieces" in info
        if (version == "1") != (has_v1 and not has_v2) and version == "1":
            probs.append("version-structure")
        if version == "2" and not (has_v2 and not has_v1):
            probs.append("version-structure")
        if version == "3" and not (has_v2 and has_v1):
            probs.append("version-structure")
        if version == "1":
            pads = [f for f in info.get(b"files", [])
                    if b"p" in f.get(b"attr", b"")]
            if bool(align) != bool(pads):
                probs.append("align-effect")
        return probs
    return check


def normalise(raw):
    m = bencode.plain(bencode.decode(raw, strict=False))
    m.pop(b"creation date", None)
    return m


def _clean(sandbox, keep):
    """Remove what a case left in its sandbox (everything but `keep`)."""
    import shutil
    for n in os.listdir(sandbox):
        p = os.path.join(sandbox, n)
        if n in keep:
            continue
        if os.path.isdir(p) and not os.path.islink(p):
            shutil.rmtree(p, ignore_errors=True)
        else:
            os.remove(p)


def config_lines(opts, version, align, outarg, style="A"):
    """The lines of the configuration file that carries `opts` (styles: see
    `assumptions`)."""
    lines = ["[config]"]
    for o, v in opts.items():
        if v is None:
            if style == "B" and o == "private":
                lines.append("private = false")
            if style == "C" and o in LISTY:
                lines.append(f"{o} =")     # present but empty
            continue
        if o in LISTY:
            if style == "B" and len(v) == 1:
                lines.append(f"{o} = {v[0]}")
            elif style == "C":
                # entries separated by blank lines, trailing blank line
                lines.append(f"{o} =")
                for x in v:
                    lines += ["    " + x, ""]
            else:
                lines.append(f"{o} =")
                lines += ["    " + x for x in v]
        elif o == "private":
            lines.append("private = true" if style == "A"
                         else "private = True")
        else:
            lines.append(f"{o} = {v}")
    lines.append(f"meta-version = {version}")
    if align:
        lines.append("align = true")
    elif style == "B":
        lines.append("align = false")
    lines.append(f"out = {outarg}")
    return lines


class OptionsCheck:
    id = "C20"

    def __init__(self):
        self.assumptions = [
            "documented option names: announce, web-seed, http-seed, private, "
            "source, comment, piece-length, meta-version, out, align",
            "library route: keywords of the creator class the CLI would pick "
            "(TorrentFile for version 1, TorrentAssembler otherwise), integer "
            "piece length; config route: [config] section with the long "
            "option names, in two styles: A = multi-line values for list "
            "options and only the switched-on booleans; B = single-line value "
            "for one-element lists, `private = True`, explicit `private = "
            "false` / `align = false` for switched-off booleans; C = list "
            "entries separated by blank lines, list keys present but empty "
            "when the option is not given; D = style A written to "
            "./torrentfile.ini and found through the working directory "
            "(no --config-path); E = D with different files planted at the "
            "lower-priority default locations; F = the options in "
            "~/.torrentfile/torrentfile.ini with a different file below "
            "~/.config",
            "environment group: the routes compared in a working directory "
            "that was removed and in one that refuses new files",
            "one two-file payload; values per option from a small alphabet",
            "value group (one option at a time, routes keyword / flag / "
            "config styles A and B): 23 characters or words inside a value; "
            "whole values of three classes - bool-word (true True false "
            "FALSE yes no on off 1 0 none None null), percent (`100% legal`, "
            "`50%`, `a%%b`, `%(x)s`, `${x}`; URL forms for the list options) "
            "and at-prefix (`@x`, `@notes` with a file `notes` present in "
            "the working directory, `@alice thanks` / `@http://h/x`) - for "
            "comment and source and, for announce / web-seed / http-seed, as "
            "the only entry, the first and the last of two; the same classes "
            "as relative values of `out`.  The configuration file carries "
            "the value literally (`key = value`), as the documentation shows "
            "it; a written file that is not a bencoded dictionary is a "
            "violation (`metafile-not-bencode`), not a machinery error",
            "option-name group: every long option name / alias of the create "
            "sub-parser, read from the live argparse parser of the code "
            "under test (united with the names read from cli.py: announce "
            "tracker private source magnet comment out prog progress "
            "meta-version piece-length web-seed http-seed align; `config` "
            "and `config-path` select the route and are not keys), used as "
            "the only key of the configuration file and compared with the "
            "flag of the same spelling; for names that are not documented "
            "options (magnet, prog, progress) only the metafile is compared",
            "keyword-form group: meta_version as int (documented type) and "
            "as str (what the command passes) for TorrentFile, TorrentFileV2, "
            "TorrentFileHybrid, TorrentAssembler, without options and with "
            "all options: the two forms must give the same metafile; for the "
            "class the command picks both must equal the flag route and "
            "have the version structure; a class raising for the str form "
            "only is not judged",
            "CLI orders: every permutation and every content-path position "
            "for subsets of <= 3 flags; canonical, reversed and rotated "
            "orders for larger subsets",
            "process-environment group (mc/envrun.py): the routes keyword / "
            "flag / configuration file style A (thorough: style B too) for "
            "an all-ASCII option set, for each of comment, source, announce, "
            "web-seed, http-seed carrying text outside ASCII, for an `out` "
            "file name outside ASCII and for a configuration file whose only "
            "non-ASCII text is a comment line (thorough: all at once), x "
            "meta-version 1 / 2 / 3 x EVERY member of envrun.ENVS (terminal "
            "widths, -O / PYTHONOPTIMIZE=2, ASCII filesystem and locale "
            "encodings with UTF-8 mode off, POSIX locale, stdout closed / "
            "full / a file / ascii-only, removed working directory, -W "
            "error, TORRENTFILE_DEBUG=ON, low recursion limit, RLIMIT_NOFILE "
            "64, umasks, no HOME, far time zone, small io buffer); one child "
            "interpreter per (environment, version) runs the sub-catalogue, "
            "the parent builds the inputs and reads the results.  The "
            "configuration file holds UTF-8 bytes; the flag and keyword "
            "values are `str` objects handed to cli.execute / the creator "
            "class inside the child (how the operating system would decode "
            "an argv is not part of a route).  Reading: within one "
            "environment a route that leaves no metafile while another "
            "route writes one is a disagreement (violation) - the statement "
            "says the option means the same however it is supplied; all "
            "routes refusing alike without leaving a file is recorded, not "
            "judged; two refusals are not compared by the type of their "
            "exceptions; a metafile left under another name than `out` says "
            "(in the route's own output directory) is a violation, other "
            "neighbours are C18's subject",
        ]
        self.rule = (
            "full product of option subsets/values x meta-version x align x "
            "out form; each combination executed through three routes of the "
            "real code (keywords, CLI flags, config file) and, for the CLI, "
            "through every enumerated argument order; state = one option "
            "combination; transition = one create; oracle = equality of the "
            "decoded metafiles minus creation date + documented field "
            "placement; plus three complete side catalogues judged by the "
            "same oracle: special values (characters inside a value; whole "
            "values that look like booleans / numbers / nothing, contain `%` "
            "or begin with `@`) x option (comment, source, list options, "
            "out) x route; every long option name of the create sub-parser "
            "as a configuration key against the flag of the same spelling; "
            "int and str forms of the meta_version keyword x creator class "
            "against each other and against the flag route; plus the "
            "process-environment axis: (ASCII control, each text / list "
            "option and `out` with text outside ASCII, non-ASCII comment "
            "line in the configuration file) x meta-version x every named "
            "process environment of mc/envrun.py, the three routes executed "
            "in a child interpreter under that environment and judged by "
            "the same oracle per environment")

    def combos(self):
        for vals in itertools.product(*[OPTION_VALUES[o] for o in OPT_ORDER]):
            yield dict(zip(OPT_ORDER, vals))

    def groups(self, tier, seed):
        gs = []
        for version in ("1", "2", "3"):
            for align in ((False, True) if version == "1" else (False,)):
                for outform in ("file", "dir", "inside"):
                    for a in range(len(OPTION_VALUES["announce"])):
                        for wsi in range(len(OPTION_VALUES["web-seed"])):
                            gs.append({"version": version, "align": align,
                                       "out": outform, "a": a, "ws": wsi,
                                       "seed": seed, "tier": tier})
        for version in ("1", "2", "3"):
            gs.append({"kind": "env", "version": version, "seed": seed,
                       "tier": tier})
            for part in ("mid", "whole", "out"):
                gs.append({"kind": "values", "version": version,
                           "seed": seed, "tier": tier, "part": part})
            gs.append({"kind": "names", "version": version, "seed": seed,
                       "tier": tier})
            gs.append({"kind": "kwforms", "version": version, "seed": seed,
                       "tier": tier})
            gs.append({"kind": "content-names", "version": version,
                       "seed": seed, "tier": tier})
        for env in envrun.ENVS:
            gs.append({"kind": "penv", "env": env, "seed": seed,
                       "tier": tier})
        return gs

    # routes -----------------------------------------------------------
    def run_route(self, route, opts, version, align, outform, root, sandbox,
                  argv_override=None, style="A"):
        n = len(os.listdir(sandbox))
        while os.path.lexists(os.path.join(sandbox, f"out{n}")):
            n += 1
        outdir = os.path.join(sandbox, f"out{n}")
        os.mkdir(outdir)
        if outform == "file":
            outarg = os.path.join(outdir, "x.torrent")
            expect = outarg
        elif isinstance(outform, (list, tuple)):
            # ("rel", value): the value of `out` as given, relative to the
            # working directory (the sandbox); a file left there by another
            # route is removed first
            outarg = outform[1]
            expect = os.path.join(sandbox, outarg)
            if os.path.lexists(expect) and outarg != NOTES_FILE[0]:
                os.remove(expect)
        elif outform == "inside":
            # the output file lies inside the content directory (a private
            # copy of the payload, so that routes do not see each other's
            # output)
            import shutil
            root = shutil.copytree(root, os.path.join(outdir,
                                                      world.ROOT_NAME))
            outarg = os.path.join(root, "x.torrent")
            expect = outarg
        else:
            outarg = outdir + os.sep
            expect = os.path.join(outdir, world.ROOT_NAME + ".torrent")
        tf.reset_process_state()
        cwd = os.getcwd()
        os.chdir(sandbox)
        try:
            if route == "kw":
                kw = {}
                for o, v in opts.items():
                    if v is None:
                        continue
                    kw[KW[o]] = int(v) if o == "piece-length" else (
                        list(v) if isinstance(v, list) else v)
                kw["meta_version"] = version
                kw["outfile"] = outarg
                kw["path"] = root
                kw["progress"] = 0
                if align:
                    kw["align"] = True
                with tf.quiet():
                    cls = tf.torrent.TorrentFile if version == "1" else \
                        tf.torrent.TorrentAssembler
                    cls(**kw).write()
            elif route == "cli":
                if argv_override is not None:
                    argv = [a if a != "<OUT>" else outarg
                            for a in argv_override]
                else:
                    argv = ["create", root]
                    for c, _ in chunks_of(opts, version, align):
                        argv += c
                    argv += ["-o", outarg, "--prog", "0"]
                tf.execute(argv)
            else:
                cfg = os.path.join(outdir, "cfg.ini")
                lines = config_lines(opts, version, align, outarg, style)
                if style in "DEF":
                    # the default locations: ./torrentfile.ini, found through
                    # the current directory at the time of the call, then
                    # ~/.torrentfile/torrentfile.ini (HOME points into the
                    # sandbox so that no real file is picked up).  E and F
                    # also plant a different file at every location of lower
                    # priority than the one holding the options.
                    cfgdir = os.path.join(outdir, "workdir")
                    os.mkdir(cfgdir)
                    home1 = os.path.join(outdir, ".torrentfile")
                    lower = [os.path.join(outdir, ".config", ".torrentfile"),
                             os.path.join(outdir, ".config")]
                    if style == "F":
                        os.mkdir(home1)
                        cfg = os.path.join(home1, "torrentfile.ini")
                    else:
                        cfg = os.path.join(cfgdir, "torrentfile.ini")
                        if style == "E":
                            lower.append(home1)
                    if style in "EF":
                        for d_ in lower:
                            os.makedirs(d_, exist_ok=True)
                            with open(os.path.join(d_, "torrentfile.ini"),
                                      "w") as f:
                                f.write("[config]\ncomment = decoy\nsource = "
                                        "decoy\nprivate = true\nannounce = "
                                        "http://decoy/\nout = " + os.path.join(
                                            outdir, "decoy.torrent") + "\n")
                    with open(cfg, "w") as f:
                        f.write("\n".join(lines) + "\n")
                    oldhome = os.environ.get("HOME")
                    os.environ["HOME"] = outdir
                    os.chdir(cfgdir)
                    try:
                        tf.execute(["create", "--config", "--prog", "0", root])
                    finally:
                        os.chdir(sandbox)
                        if oldhome is None:
                            os.environ.pop("HOME", None)
                        else:
                            os.environ["HOME"] = oldhome
                else:
                    with open(cfg, "w") as f:
                        f.write("\n".join(lines) + "\n")
                    tf.execute(["create", "--config", "--config-path", cfg,
                                "--prog", "0", root])
        except BaseException as e:  # noqa
            return ("raised:" + type(e).__name__, str(e)[:100])
        finally:
            os.chdir(cwd)
        if not os.path.isfile(expect):
            return ("no-metafile-at-out-path", None)
        with open(expect, "rb") as f:
            raw = f.read()
        try:
            normalise(raw)
        except (ValueError, TypeError, AttributeError) as e:
            # what was written is not a bencoded dictionary: a verdict about
            # the code under test, not a failure of the machinery
            return ("metafile-not-bencode", raw[:200] + repr(e).encode())
        return ("ok", raw)

    def cli_orders(self, opts, version, align, root):
        ch = chunks_of(opts, version, align)
        ch.append((["-o", "<OUT>"], False))
        ch.append((["--prog", "0"], False))
        fixed = ch[-3:]          # meta-version (+align) / -o / --prog
        free = [c for c in ch if c not in fixed]
        if align:
            fixed = ch[-4:]
            free = [c for c in ch if c not in fixed]
        orders = []
        if len(free) <= 3:
            perms = list(itertools.permutations(free))
        else:
            perms = [tuple(free), tuple(free[::-1])] + [
                tuple(free[i:] + free[:i]) for i in range(1, len(free))]
        for perm in perms:
            seq = list(perm) + fixed
            for pos in range(len(seq) + 1):
                for head in (["create"], ["new"], []):
                    if head != ["create"] and pos not in (0, len(seq)):
                        continue
                    argv = list(head)
                    for i, (c, _) in enumerate(seq):
                        if i == pos:
                            argv.append(root)
                        argv += c
                    if pos == len(seq):
                        argv.append(root)
                    orders.append(argv)
        return orders

    def run_env(self, g, res):
        """The same create through every route in working directories that
        cannot take a file: `out` must mean the same wherever it is given."""
        import builtins
        import shutil
        seed, version = g["seed"], g["version"]
        sandbox = world.fresh_dir()
        root = world.materialize(payload(seed), os.path.join(sandbox, "p"))
        combos = []
        for opts in self.combos():
            nset = sum(1 for v in opts.values() if v is not None)
            if nset in (0, len(OPT_ORDER)) or (
                    nset == 2 and opts["announce"] and opts["comment"]):
                combos.append(opts)
        for opts in combos[:6]:
            for env in ("cwd-removed", "cwd-unwritable"):
                for outform in ("file", "dir"):
                    outs = {}
                    for route in ("kw", "cli", "config", "config-B"):
                        wd = os.path.join(sandbox, "wd")
                        os.mkdir(wd)
                        real_open = builtins.open
                        real_chdir = os.chdir

                        def guarded(file, mode="r", *a, **k):
                            if isinstance(file, (str, bytes, os.PathLike)) \
                                    and any(c in mode for c in "wax+"):
                                d = os.path.dirname(os.path.abspath(
                                    os.fsdecode(file)))
                                if d == wd:
                                    raise PermissionError(
                                        13, "Permission denied",
                                        os.fsdecode(file))
                            return real_open(file, mode, *a, **k)

                        def chdir(path, first=[True]):
                            # run_route enters the sandbox; go on to the
                            # hostile working directory from there
                            real_chdir(path)
                            if first[0] and path == sandbox:
                                first[0] = False
                                real_chdir(wd)
                                if env == "cwd-removed":
                                    os.rmdir(wd)
                        try:
                            os.chdir = chdir
                            if env == "cwd-unwritable":
                                builtins.open = guarded
                            outs[route] = self.run_route(
                                route.split("-")[0], opts, version, False,
                                outform, root, sandbox,
                                style=route[-1] if "-" in route else "A")
                        finally:
                            builtins.open = real_open
                            os.chdir = real_chdir
                            shutil.rmtree(wd, ignore_errors=True)
                        res.transitions += 1
                        res.evals += 1
                        res.validated += 1
                    res.states += 1
                    case = {"kind": "env", "opts": opts, "version": version,
                            "align": False, "out": outform, "seed": seed,
                            "env": env}
                    # flag route against the configuration routes: both go
                    # through the command and meet the same environment (the
                    # keyword route never looks at the working directory and
                    # is only recorded)
                    ref = outs["cli"]
                    for route, (st, raw) in outs.items():
                        if route in ("kw", "cli"):
                            continue
                        same = (st == ref[0]) and (
                            st != "ok" or normalise(raw) == normalise(ref[1]))
                        res.outcomes[f"env:{'same' if same else 'differs'}"] \
                            += 1
                        if not same:
                            res.violation(
                                f"C20|{route}|differs-from-flag-route|"
                                f"v{version}|{env}|{st}",
                                dict(case, route=route),
                                (st, ref[0], raw if st != "ok" else None))
            for n in os.listdir(sandbox):
                if n.startswith("out"):
                    shutil.rmtree(os.path.join(sandbox, n), ignore_errors=True)
        return res

    def run_content_names(self, g, res, only=None):
        """Content roots whose own names look like something else (a URL
        scheme, an assignment, a number ...), given relative to the working
        directory, with a list-valued flag directly before the path."""
        import shutil
        seed, version = g["seed"], g["version"]
        sandbox = world.fresh_dir()
        for cname in CONTENT_NAMES:
            parent = os.path.join(sandbox, "pp")
            os.makedirs(parent, exist_ok=True)
            try:
                root = world.materialize(payload(seed), parent, name=cname)
            except OSError:
                continue
            outs = {}
            url = "http://t1/announce"
            variants = {
                "kw": None,
                "path-first": ["create", cname, "--announce", url],
                "announce-then-path": ["create", "--announce", url, cname],
                "announce2-then-path": ["create", "--announce", url,
                                        "http://t2/announce", cname],
                "config": "config",
            }
            for vname, argv in variants.items():
                out = os.path.join(sandbox, f"o_{len(os.listdir(sandbox))}"
                                            ".torrent")
                cwd = os.getcwd()
                os.chdir(parent)
                tf.reset_process_state()
                try:
                    ann = [url, "http://t2/announce"] if "2" in vname \
                        else [url]
                    if vname == "kw":
                        cls = tf.torrent.TorrentFile if version == "1" else \
                            tf.torrent.TorrentAssembler
                        with tf.quiet():
                            cls(path=cname, announce=list(ann), outfile=out,
                                meta_version=version, progress=0).write()
                    elif argv == "config":
                        cfg = os.path.join(sandbox, "c.ini")
                        with open(cfg, "w") as f:
                            f.write("[config]\nannounce =\n    " + url +
                                    f"\nmeta-version = {version}\nout = "
                                    f"{out}\n")
                        tf.execute(["create", "--config", "--config-path",
                                    cfg, "--prog", "0", cname])
                    else:
                        tf.execute(argv + ["--meta-version", version, "-o",
                                           out, "--prog", "0"])
                    with open(out, "rb") as f:
                        outs[vname] = ("ok", normalise(f.read()))
                except BaseException as e:  # noqa
                    outs[vname] = ("raised:" + type(e).__name__, None)
                finally:
                    os.chdir(cwd)
                res.transitions += 1
                res.evals += 1
                res.validated += 1
            res.states += 1
            case = {"kind": "content-names", "version": version,
                    "seed": seed, "name": cname}
            ref = outs["kw"]
            ref2 = None
            for vname, (st, m) in outs.items():
                if vname == "kw":
                    continue
                want = ref
                if "2" in vname:
                    # two trackers: compare with the one-tracker result on
                    # everything but the tracker fields
                    if st == "ok" and ref[0] == "ok":
                        m = dict(m)
                        m[b"announce-list"] = ref[1].get(b"announce-list")
                same = st == want[0] and (st != "ok" or m == want[1])
                res.outcomes["names:" + ("same" if same else "differs")] += 1
                if not same and not (only and only.get("route") != vname):
                    res.violation(
                        f"C20|{vname}|differs-from-keyword-route|v{version}|"
                        f"content-name|{st}", dict(case, route=vname),
                        (st, want[0]))
            shutil.rmtree(parent, ignore_errors=True)
        return res

    def value_cases(self, part):
        """(option, value, class, shown) of the special-value catalogue."""
        text_opts = ("comment", "source")
        value_opts = ("announce", "web-seed", "http-seed") + text_opts
        if part in (None, "mid"):
            for o in value_opts:
                for mid in SPECIAL_MID:
                    if o in LISTY:
                        val = [f"http://h/a{mid}b", "http://second/"]
                    else:
                        val = f"x{mid}y"
                    yield o, val, "special-value", repr(mid)
        if part in (None, "whole"):
            for o in value_opts:
                for cls, text, entry in WHOLE_VALUES:
                    if o in LISTY:
                        # as the only entry (one-line form in style B), as
                        # the first and as the last of two
                        for val in ([entry], [entry, "http://second/"],
                                    ["http://first/", entry]):
                            yield o, val, cls, repr(val)
                    else:
                        yield o, text, cls, repr(text)
        if part in (None, "out"):
            for cls, val in OUT_VALUES:
                yield "out", val, cls, repr(val)

    def run_values(self, g, res, only=None):
        """One option at a time with values that mean something to one of the
        routes: characters inside the value (line-boundary characters other
        than LF, `=`, `:`, `;`, `#`, quotes, option-like words) and whole
        values (boolean-like / number-like / null-like words, `%` sequences,
        a leading `@`), for the text options, as entries of the list options
        and as the value of `out`."""
        seed, version = g["seed"], g["version"]
        sandbox = world.fresh_dir()
        root = world.materialize(payload(seed), os.path.join(sandbox, "p"))
        with open(os.path.join(sandbox, NOTES_FILE[0]), "w") as f:
            f.write(NOTES_FILE[1])
        for o, val, cls, shown in self.value_cases(g.get("part")):
            opts = {k: None for k in OPT_ORDER}
            outform = "file"
            if o == "out":
                outform = ["rel", val]
                opts["comment"] = "c"
            else:
                opts[o] = val
            case = {"kind": "values", "opts": opts, "version": version,
                    "align": False, "out": outform, "seed": seed}
            if only is not None and (
                    only["opts"] != opts or
                    (only.get("out") or "file") != outform):
                continue
            check = expected_fields(opts, version, False)
            outs = {}
            for route in ("kw", "cli", "config", "config-B"):
                outs[route] = self.run_route(
                    route.split("-")[0], opts, version, False, outform,
                    root, sandbox,
                    style=route[-1] if "-" in route else "A")
                res.transitions += 1
                res.evals += 1
                res.validated += 1
            res.states += 1
            ref = outs["kw"]
            for route, (st, raw) in outs.items():
                probs = []
                if st != "ok":
                    probs.append(st)
                else:
                    probs += check(normalise(raw))
                    if ref[0] == "ok" and normalise(raw) != \
                            normalise(ref[1]):
                        probs.append("differs-from-keyword-route")
                res.outcomes["values:" + (probs[0] if probs else
                                          "ok")] += 1
                for pr in probs:
                    res.violation(
                        f"C20|{route}|{pr}|v{version}|{cls}:{o}",
                        dict(case, route=route), shown)
            _clean(sandbox, keep=("p", NOTES_FILE[0]))
        return res

    # option names -------------------------------------------------------
    def long_options(self):
        """Every long option name the create sub-parser of the code under
        test accepts: {name: (dest, kind, choices)}, read from the live
        parser (so that a new alias is enumerated without touching this
        file), united with the names read from cli.py."""
        import argparse
        names = {k: (d, kind, None) for k, (d, kind) in STATIC_LONG.items()}
        source = "static"

        class _Got(BaseException):
            pass

        real = argparse.ArgumentParser.parse_args

        def grab(self_, *a, **k):
            raise _Got(self_)
        try:
            argparse.ArgumentParser.parse_args = grab
            try:
                with tf.quiet():
                    tf.cli.execute(["create", "x"])
            except _Got as got:
                parser = got.args[0]
                sub = [a for a in parser._actions
                       if isinstance(a, argparse._SubParsersAction)]
                for act in sub[0].choices["create"]._actions:
                    for s in act.option_strings:
                        if not s.startswith("--"):
                            continue
                        if act.nargs == 0:
                            kind = "flag"
                        elif act.nargs in ("+", "*"):
                            kind = "list"
                        else:
                            kind = "text"
                        names[s[2:]] = (act.dest, kind, list(act.choices)
                                        if act.choices else None)
                source = "live parser"
            except Exception:  # noqa
                pass
        finally:
            argparse.ArgumentParser.parse_args = real
        for n in ROUTE_SELECTORS:
            names.pop(n, None)
        return names, source

    def run_names(self, g, res, only=None):
        """Every long option name / alias of the create sub-parser as a
        configuration key (the documentation: "file can use the same long
        options names used for the command line"), compared with the flag of
        the same spelling; nothing else is in the file, the remaining
        arguments are the same on both command lines."""
        seed, version = g["seed"], g["version"]
        sandbox = world.fresh_dir()
        root = world.materialize(payload(seed), os.path.join(sandbox, "p"))
        names, source = self.long_options()
        res.notes.add("option names from: " + source)
        res.extra["max_long_option_names"] = len(names)
        for name in sorted(names):
            dest, kind, choices = names[name]
            if kind == "flag":
                values = [True]
            elif kind == "list":
                values = [["http://t1/announce"],
                          ["http://t1/announce", "http://t2/announce"]]
            elif dest == "meta_version":
                values = [version]
            elif dest == "piece_length":
                values = ["15", "32768"]
            elif dest == "progress":
                values = ["0"]
            elif dest == "outfile":
                values = ["<OUT>"]
            elif choices:
                values = [choices[0]]
            else:
                values = ["text value"]
            for val in values:
                case = {"kind": "names", "name": name, "value": val,
                        "version": version, "seed": seed}
                if only is not None and (only["name"] != name or
                                         only["value"] != val):
                    continue
                opts = {k: None for k in OPT_ORDER}
                if dest in DOC_DEST:
                    opts[DOC_DEST[dest]] = val
                check = expected_fields(opts, version, dest == "align")
                outs = {}
                for route in ("flag", "config"):
                    n = len(os.listdir(sandbox))
                    out = os.path.join(sandbox, f"n{n}.torrent")
                    v = out if val == "<OUT>" else val
                    common = []
                    if dest != "meta_version":
                        common += ["--meta-version", version]
                    if dest != "progress":
                        common += ["--prog", "0"]
                    if dest != "outfile":
                        common += ["-o", out]
                    if route == "flag":
                        argv = ["create", root] + common + ["--" + name]
                        if kind == "list":
                            argv += list(v)
                        elif kind != "flag":
                            argv.append(v)
                    else:
                        cfg = os.path.join(sandbox, f"n{n}.ini")
                        with open(cfg, "w") as f:
                            if kind == "list":
                                f.write("[config]\n" + name + " =\n" + "".join(
                                    "    " + x + "\n" for x in v))
                            elif kind == "flag":
                                f.write(f"[config]\n{name} = true\n")
                            else:
                                f.write(f"[config]\n{name} = {v}\n")
                        argv = ["create", "--config", "--config-path", cfg,
                                root] + common
                    tf.reset_process_state()
                    cwd = os.getcwd()
                    os.chdir(sandbox)
                    try:
                        tf.execute(argv)
                        with open(out, "rb") as f:
                            outs[route] = ("ok", normalise(f.read()))
                    except BaseException as e:  # noqa
                        outs[route] = ("raised:" + type(e).__name__,
                                       str(e)[:100])
                    finally:
                        os.chdir(cwd)
                    res.transitions += 1
                    res.evals += 1
                    res.validated += 1
                res.states += 1
                probs = []
                fst, fm = outs["flag"]
                cst, cm = outs["config"]
                documented = dest in DOC_DEST or dest in (
                    "meta_version", "outfile", "align")
                if documented:
                    # a documented option under any of its spellings must
                    # work and land in its field on both routes
                    for route, (st, m) in outs.items():
                        if st != "ok":
                            probs.append((route, st))
                        else:
                            probs += [(route, p) for p in check(m)]
                if cst != fst:
                    probs.append(("config", "differs-from-flag-route:" + cst))
                elif cst == "ok" and cm != fm:
                    diff = sorted(k.decode() for k in set(cm) | set(fm)
                                  if cm.get(k) != fm.get(k))
                    probs.append(("config", "differs-from-flag-route:" +
                                  "+".join(diff)))
                res.outcomes["names:" + (probs[0][1] if probs else "ok")] += 1
                for route, pr in probs:
                    res.violation(
                        f"C20|{route}|{pr}|v{version}|option-name:{name}",
                        dict(case, route=route), (fst, cst))
                _clean(sandbox, keep=("p",))
        return res

    def run_kwforms(self, g, res, only=None):
        """Library route: `meta_version` in its documented type (int) and in
        the type the command line passes (str), for every creator class."""
        seed, version = g["seed"], g["version"]
        sandbox = world.fresh_dir()
        root = world.materialize(payload(seed), os.path.join(sandbox, "p"))
        picked = "TorrentFile" if version == "1" else "TorrentAssembler"
        all_set = {o: OPTION_VALUES[o][-1] for o in OPT_ORDER}
        for oname, opts in (("none", {o: None for o in OPT_ORDER}),
                            ("all", all_set)):
            check = expected_fields(opts, version, False)
            st, raw = self.run_route("cli", opts, version, False, "file",
                                     root, sandbox)
            res.transitions += 1
            flag = (st, normalise(raw) if st == "ok" else None)
            for cname in ("TorrentFile", "TorrentFileV2",
                          "TorrentFileHybrid", "TorrentAssembler"):
                case = {"kind": "kwforms", "version": version, "seed": seed,
                        "opts": opts, "cls": cname}
                if only is not None and (only["cls"] != cname or
                                         only["opts"] != opts):
                    continue
                outs = {}
                for form in ("str", "int"):
                    mv = version if form == "str" else int(version)
                    out = os.path.join(
                        sandbox, f"k{len(os.listdir(sandbox))}.torrent")
                    kw = {}
                    for o, v in opts.items():
                        if v is not None:
                            kw[KW[o]] = int(v) if o == "piece-length" else (
                                list(v) if isinstance(v, list) else v)
                    tf.reset_process_state()
                    try:
                        with tf.quiet():
                            getattr(tf.torrent, cname)(
                                path=root, outfile=out, progress=0,
                                meta_version=mv, **kw).write()
                        with open(out, "rb") as f:
                            outs[form] = ("ok", normalise(f.read()))
                    except BaseException as e:  # noqa
                        outs[form] = ("raised:" + type(e).__name__,
                                      str(e)[:100])
                    res.transitions += 1
                    res.evals += 1
                    res.validated += 1
                res.states += 1
                probs = []
                if cname == picked:
                    # the class the command picks for this version: both
                    # forms mean what the flag means
                    for form, (st, m) in outs.items():
                        if st != "ok":
                            probs.append((form, st))
                            continue
                        probs += [(form, p) for p in check(m)]
                        if flag[0] == "ok" and m != flag[1]:
                            probs.append((form, "differs-from-flag-route"))
                # every class: the documented type must not mean something
                # else than the type the command line passes
                if outs["str"][0] == "ok" and outs["int"] != outs["str"]:
                    probs.append(("int", "differs-from-str-form"
                                  if outs["int"][0] == "ok"
                                  else outs["int"][0]))
                res.outcomes["kwforms:" + (probs[0][1] if probs
                                           else "ok")] += 1
                for form, pr in dict.fromkeys(probs):
                    res.violation(
                        f"C20|kw-{form}|{pr}|v{version}|meta_version-type:"
                        f"{cname}", dict(case, form=form), oname)
            _clean(sandbox, keep=("p",))
        return res

    # process environment ------------------------------------------------
    def penv_cases(self, tier):
        """(name, class, opts, out file name, extra configuration lines)."""
        none = {o: None for o in OPT_ORDER}
        cases = [("ascii", "ascii-values",
                  {o: OPTION_VALUES[o][-1] for o in OPT_ORDER}, "x.torrent",
                  [])]
        for o, v in PENV_VALUES.items():
            cases.append((o, "non-ascii-value", dict(none, **{o: v}),
                          "x.torrent", []))
        cases.append(("out", "non-ascii-value", dict(none, comment="c"),
                      PENV_OUT, []))
        cases.append(("config-comment-line", "non-ascii-value",
                      dict(none, comment="c"), "x.torrent",
                      [PENV_CFG_COMMENT]))
        if tier == "thorough":
            allv = dict({o: OPTION_VALUES[o][-1] for o in OPT_ORDER},
                        **PENV_VALUES)
            cases.append(("all", "non-ascii-value", allv, PENV_OUT,
                          [PENV_CFG_COMMENT]))
        return cases

    def run_penv(self, g, res, only=None):
        """The three routes in a child interpreter under each named process
        environment (mc/envrun.py).  One child per (environment, version)
        runs the whole sub-catalogue, every case and route in a directory of
        its own; the parent builds the inputs (configuration files as UTF-8
        bytes) and reads the results.  Judged per environment: the metafile
        each route leaves at the `out` path (or none, when the route
        refuses) must be the same for the three routes and carry every
        option in its documented field; the flag and the configuration
        route, both going through the command, must also end the same way;
        no route may leave a metafile under another name in its output
        directory.
        All routes refusing alike (no metafile anywhere) is recorded, not
        judged."""
        import json
        import shutil
        seed, env, tier = g["seed"], g["env"], g.get("tier", "quick")
        routes = ["kw", "cli", "config"] + (
            ["config-B"] if tier == "thorough" else [])
        for version in ("1", "2", "3"):
            if only is not None and only["version"] != version:
                continue
            sandbox = world.fresh_dir()
            root = world.materialize(payload(seed), os.path.join(sandbox, "p"))
            cfgdir = os.path.join(sandbox, "cfg")
            os.mkdir(cfgdir)
            runs, plan = [], []
            for i, (name, cls, opts, outname, extra) in enumerate(
                    self.penv_cases(tier)):
                for route in routes:
                    outdir = os.path.join(sandbox, f"o{i}_{route}")
                    os.mkdir(outdir)
                    outarg = os.path.join(outdir, outname)
                    if route == "kw":
                        spec = {}
                        for o, v in opts.items():
                            if v is not None:
                                spec[KW[o]] = int(v) if o == "piece-length" \
                                    else v
                        spec.update(meta_version=version, outfile=outarg,
                                    path=root, progress=0)
                    elif route == "cli":
                        spec = ["create", root]
                        for c, _ in chunks_of(opts, version, False):
                            spec += c
                        spec += ["-o", outarg, "--prog", "0"]
                    else:
                        cfg = os.path.join(cfgdir, f"c{i}_{route}.ini")
                        lines = config_lines(
                            opts, version, False, outarg,
                            route[-1] if "-" in route else "A")
                        lines[1:1] = extra
                        with open(cfg, "wb") as f:
                            f.write(("\n".join(lines) + "\n").encode("utf-8"))
                        spec = ["create", "--config", "--config-path", cfg,
                                "--prog", "0", root]
                    runs.append([f"{name}/{route}", spec])
                    plan.append((name, route, outdir, outname))
            blob = json.dumps({"version": version, "runs": runs})
            rep = envrun.run(env, _PENV_BODY.format(blob=blob), cwd=cfgdir)
            res.transitions += len(runs)
            res.evals += len(runs)
            res.extra["child_interpreters"] += 1
            if not rep["report"] or not isinstance(rep["obs"], dict) or \
                    len(rep["obs"]) != len(runs):
                # the child died before it ran the catalogue: nothing was
                # observed, so nothing is judged (recorded); the baseline
                # environment must always report
                res.outcomes[f"penv:{env}:child-did-not-report"] += 1
                shutil.rmtree(sandbox, ignore_errors=True)
                if env == "default":
                    raise core.InfraError(
                        "penv child did not report: " + str(rep)[:600])
                continue
            got = {}
            for name, route, outdir, outname in plan:
                st, msg = rep["obs"][f"{name}/{route}"]
                expect = os.path.join(outdir, outname)
                meta = None
                if os.path.isfile(expect):
                    with open(expect, "rb") as f:
                        raw = f.read()
                    try:
                        meta = normalise(raw)
                    except (ValueError, TypeError, AttributeError):
                        meta = ("metafile-not-bencode", raw[:200])
                elif st == "ok":
                    st = "no-metafile-at-out-path"
                # a METAFILE under another name than `out` says (other
                # neighbours are C18's subject, not judged here)
                stray = []
                for n in sorted(os.listdir(outdir)):
                    p = os.path.join(outdir, n)
                    if n == outname or not os.path.isfile(p):
                        continue
                    try:
                        with open(p, "rb") as f:
                            if b"info" in normalise(f.read()):
                                stray.append(os.fsencode(n))
                    except (ValueError, TypeError, AttributeError):
                        pass
                got.setdefault(name, {})[route] = (st, meta, stray, msg)
                res.validated += 1
            for name, cls, opts, outname, extra in self.penv_cases(tier):
                res.states += 1
                check = expected_fields(opts, version, False)
                outs = got[name]
                case = {"kind": "penv", "env": env, "version": version,
                        "name": name, "seed": seed, "tier": tier}
                ref = outs["kw"]
                flag = outs["cli"]
                nviol = 0
                for route, (st, meta, stray, msg) in outs.items():
                    probs = []
                    if isinstance(meta, tuple):
                        probs.append("metafile-not-bencode")
                    elif meta is not None:
                        probs += check(meta)
                    if stray:
                        probs.append("metafile-at-another-path")
                    if st == "no-metafile-at-out-path":
                        probs.append(st)
                    if route != "kw":
                        if meta is None and ref[1] is not None:
                            probs.append(st)
                        elif meta is not None and ref[1] is None:
                            probs.append("writes-where-keyword-route-refuses")
                        elif meta != ref[1]:
                            probs.append("differs-from-keyword-route")
                    # (two refusals that leave nothing are not compared by
                    # the type of their exceptions)
                    if route.startswith("config") and not probs and (
                            meta is not None or flag[1] is not None) and (
                            st != flag[0] or meta != flag[1]):
                        probs.append("differs-from-flag-route:" + st)
                    for pr in dict.fromkeys(probs):
                        nviol += 1
                        if only is not None and (
                                only["name"] != name or
                                only.get("route") != route):
                            continue
                        res.violation(
                            f"C20|{route}|{pr}|v{version}|{cls}|penv:{env}",
                            dict(case, route=route),
                            {"option": name, "status": st, "message": msg,
                             "keyword-route": ref[0], "flag-route": flag[0],
                             "stray": stray[:3]})
                if nviol:
                    res.outcomes[f"penv:{env}:routes-disagree"] += 1
                elif all(o[1] is None for o in outs.values()):
                    res.outcomes[f"penv:{env}:all-routes-refuse:"
                                 f"{ref[0]}"] += 1
                else:
                    res.outcomes[f"penv:{env}:ok"] += 1
            shutil.rmtree(sandbox, ignore_errors=True)
        res.sample({"kind": "penv", "env": env})
        return res

    def run_group(self, g):
        res = core.Result()
        seed = g["seed"]
        if g.get("kind") == "penv":
            return self.run_penv(g, res)
        if g.get("kind") == "names":
            return self.run_names(g, res)
        if g.get("kind") == "kwforms":
            return self.run_kwforms(g, res)
        if g.get("kind") == "env":
            return self.run_env(g, res)
        if g.get("kind") == "values":
            return self.run_values(g, res)
        if g.get("kind") == "content-names":
            return self.run_content_names(g, res)
        sandbox = world.fresh_dir()
        root = world.materialize(payload(seed), os.path.join(sandbox, "p"))
        version, align, outform = g["version"], g["align"], g["out"]
        for opts in self.combos():
            if OPTION_VALUES["announce"].index(opts["announce"]) != g["a"]:
                continue
            if OPTION_VALUES["web-seed"].index(opts["web-seed"]) != g["ws"]:
                continue
            check = expected_fields(opts, version, align)
            outs = {}
            for route in ("kw", "cli", "config", "config-B", "config-C",
                          "config-D", "config-E", "config-F"):
                outs[route] = self.run_route(
                    route.split("-")[0], opts, version, align, outform, root,
                    sandbox, style=route[-1] if "-" in route else "A")
                res.transitions += 1
                res.evals += 1
            res.states += 1
            nset = sum(1 for v in opts.values() if v is not None)
            case = {"opts": opts, "version": version, "align": align,
                    "out": outform, "seed": seed}
            metas = {}
            optnames = "+".join(o for o in OPT_ORDER if opts[o] is not None)
            for route, (st, raw) in outs.items():
                res.validated += 1
                if st != "ok":
                    res.violation(f"C20|{route}|{st}|v{version}|{outform}",
                                  dict(case, route=route), raw)
                    res.outcomes[st] += 1
                    continue
                m = normalise(raw)
                metas[route] = m
                probs = check(m)
                for p in probs:
                    res.violation(f"C20|{route}|{p}|v{version}",
                                  dict(case, route=route), optnames)
                res.outcomes["ok" if not probs else probs[0]] += 1
            if "kw" in metas:
                for route in ("cli", "config", "config-B", "config-C",
                              "config-D", "config-E", "config-F"):
                    if route in metas and metas[route] != metas["kw"]:
                        diff = sorted(
                            k.decode() for k in set(metas[route]) | set(
                                metas["kw"])
                            if metas[route].get(k) != metas["kw"].get(k))
                        res.violation(
                            f"C20|{route}|differs-from-keyword-route|"
                            f"v{version}|{'+'.join(diff)}",
                            dict(case, route=route), optnames)
                        res.outcomes["routes-differ"] += 1
            # CLI argument orders
            if "cli" in metas and (nset <= 3 or g["tier"] == "thorough"
                                   or nset == 7) and outform == "file":
                for argv in self.cli_orders(opts, version, align, root):
                    st, raw = self.run_route("cli", opts, version, align,
                                             outform, root, sandbox,
                                             argv_override=argv)
                    res.transitions += 1
                    res.evals += 1
                    res.validated += 1
                    ok = st == "ok" and normalise(raw) == metas["cli"]
                    res.outcomes["order-ok" if ok else "order-differs"] += 1
                    if not ok:
                        shown = [a if a != root else "<PATH>" for a in argv]
                        res.violation(
                            f"C20|cli-order|{st if st != 'ok' else 'differs'}"
                            f"|v{version}|path-after:"
                            f"{shown[shown.index('<PATH>') - 1] if shown.index('<PATH>') else 'start'}",
                            dict(case, route="cli-order", argv=shown), optnames)
            res.sample(case)
            # keep the sandbox small
            for n in os.listdir(sandbox):
                if n.startswith("out"):
                    import shutil
                    shutil.rmtree(os.path.join(sandbox, n),
                                  ignore_errors=True)
        return res

    def replay(self, case):
        if case.get("kind") == "penv":
            res = self.run_penv({"seed": case["seed"], "env": case["env"],
                                 "tier": case.get("tier", "quick")},
                                core.Result(), only=case)
            return [{"sig": v["sig"], "detail": v["detail"]}
                    for v in res.violations]
        if case.get("kind") == "content-names":
            res = self.run_content_names(
                {"seed": case["seed"], "version": case["version"]},
                core.Result(), only=case)
            return [{"sig": v["sig"], "detail": v["detail"]}
                    for v in res.violations
                    if v["case"].get("name") == case.get("name")
                    and v["case"].get("route") == case.get("route")]
        if case.get("kind") == "values":
            res = self.run_values({"seed": case["seed"],
                                   "version": case["version"]}, core.Result(),
                                  only=case)
            return [{"sig": v["sig"], "detail": v["detail"]}
                    for v in res.violations
                    if v["case"].get("route") == case.get("route")]
        if case.get("kind") == "names":
            res = self.run_names({"seed": case["seed"],
                                  "version": case["version"]}, core.Result(),
                                 only=case)
            return [{"sig": v["sig"], "detail": v["detail"]}
                    for v in res.violations
                    if v["case"].get("route") == case.get("route")]
        if case.get("kind") == "kwforms":
            res = self.run_kwforms({"seed": case["seed"],
                                    "version": case["version"]},
                                   core.Result(), only=case)
            return [{"sig": v["sig"], "detail": v["detail"]}
                    for v in res.violations
                    if v["case"].get("form") == case.get("form")]
        if case.get("kind") == "env":
            res = self.run_env({"seed": case["seed"],
                                "version": case["version"]}, core.Result())
            return [{"sig": v["sig"], "detail": v["detail"]}
                    for v in res.violations
                    if all(v["case"].get(k) == case.get(k)
                           for k in ("opts", "out", "env", "route"))]
        sandbox = world.fresh_dir()
        root = world.materialize(payload(case["seed"]),
                                 os.path.join(sandbox, "p"))
        opts = {o: case["opts"].get(o) for o in OPT_ORDER}
        version, align, outform = case["version"], case["align"], case["out"]
        check = expected_fields(opts, version, align)
        st0, raw0 = self.run_route("kw", opts, version, align, outform, root,
                                   sandbox)
        route = case["route"]
        style = "A"
        if route in ("config-B", "config-C", "config-D", "config-E",
                     "config-F"):
            route, style = "config", route[-1]
        argv = None
        if route == "cli-order":
            argv = [a if a != "<PATH>" else root for a in case["argv"]]
            route = "cli"
        st, raw = self.run_route(route, opts, version, align, outform, root,
                                 sandbox, argv_override=argv, style=style)
        if st != "ok":
            return [{"sig": f"C20|{route}|{st}", "detail": raw}]
        m = normalise(raw)
        out = [{"sig": f"C20|{route}|{p}", "detail": None} for p in check(m)]
        if st0 == "ok" and normalise(raw0) != m:
            out.append({"sig": f"C20|{route}|differs-from-keyword-route",
                        "detail": None})
        return out


def make(pid):
    return OptionsCheck()
