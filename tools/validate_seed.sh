#!/bin/sh
# tools/validate_seed.sh <dir with patch.diff + demo.py> <ID>...   (scratch worktree of /repo HEAD, removed afterwards)
d="$1"; shift
HERE="$(cd "$(dirname "$0")/.." && pwd)"
wt=$(mktemp -d /dev/shm/vs_XXXXXX); rmdir "$wt"
git -C /repo worktree add -q --detach "$wt" HEAD || exit 2
out=$(mktemp -d /dev/shm/vsout_XXXXXX)
trap 'git -C /repo worktree remove --force "$wt" 2>/dev/null; rm -rf "$out"' EXIT
(cd "$wt" && /venv/bin/python "$d/demo.py" "$wt" > "$out/demo0.log" 2>&1); echo "demo without change: exit=$?"
git -C "$wt" apply "$d/patch.diff" 2>/dev/null || git -C "$wt" apply --3way "$d/patch.diff" || { echo "PATCH DOES NOT APPLY"; exit 2; }
(cd "$wt" && /venv/bin/python "$d/demo.py" "$wt" > "$out/demo1.log" 2>&1); echo "demo with change:    exit=$? $(tail -2 "$out/demo1.log" | tr '\n' ' ' | cut -c1-200)"
echo "suite with change: $("$HERE/tools/suite.sh" "$wt" | tail -c 60)"
for id in "$@"; do
  VERIF_REPO="$wt" VERIF_OUT="$out" "$HERE/bin/check" "$id" > "$out/$id.log" 2>&1; rc=$?
  echo "check $id exit=$rc $(grep -m3 'sig:' "$out/$id.log" | tr '\n' ' ' | cut -c1-300)"
  [ $rc = 2 ] && tail -5 "$out/$id.log"
done
