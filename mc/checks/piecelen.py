"""C12 — piece length acceptance and automatic choice: exhaustive integer ranges
and structured families, through the library, the CLI and the config file."""
import os
import shutil

from mc import core, envrun, tf, world
from mc.ref import bencode, model

MIN = 16384


def spec(x):
    """Expected outcome for an integer x: ('accept', value) | ('reject',) |
    ('either', value)."""
    if 14 <= x <= 25:
        return ("accept", 1 << x)
    if 26 <= x <= 29:
        return ("either", 1 << x)
    if x >= MIN and x & (x - 1) == 0:
        return ("accept", x)
    return ("reject",)


# Python refuses int <-> decimal str conversions beyond 4300 digits (the limit
# is process-wide, so the harness must not lift it: the code under test would
# see the lifted limit too).  The harness converts in chunks instead.
LIMIT = 4300
_CH = 1000


def big_str(n):
    """Decimal text of an integer of any size (chunked; no digit limit)."""
    if n < 0:
        return "-" + big_str(-n)
    parts = []
    base = 10 ** _CH
    while True:
        n, r = divmod(n, base)
        if n == 0:
            parts.append(str(r))
            break
        parts.append(f"{r:0{_CH}d}")
    return "".join(reversed(parts))


def big_int(s):
    """Value of a string of ASCII decimal digits of any length."""
    v = 0
    head = len(s) % _CH
    if head:
        v = int(s[:head])
    for i in range(head, len(s), _CH):
        v = v * 10 ** _CH + int(s[i:i + _CH])
    return v


def enc(x):
    """JSON-safe text of an argument value (huge integers in hexadecimal)."""
    if isinstance(x, str):
        return x
    return hex(x) if x.bit_length() > 13000 else str(x)


def dec_int(t):
    return int(t, 16) if t.lstrip("-").startswith("0x") else int(t)


def safe(v):
    """Detail values for a replay file: no integer json could not print."""
    if isinstance(v, int) and not isinstance(v, bool) and \
            v.bit_length() > 13000:
        return "int:" + hex(v)[:40] + f"...({v.bit_length()} bits)"
    if isinstance(v, str) and len(v) > 200:
        return v[:40] + f"...({len(v)} chars)"
    if isinstance(v, (list, tuple)):
        return [safe(i) for i in v]
    if isinstance(v, dict):
        return {k: safe(i) for k, i in v.items()}
    return v


def _pow2_with_digits(nd):
    """The smallest power of two whose decimal text has nd digits."""
    k = max(0, int((nd - 1) / 0.30102999566398120) - 2)
    while len(big_str(1 << k)) < nd:
        k += 1
    return 1 << k


def huge_values():
    """Values around the interpreter's 4300-digit conversion limit: digit
    strings of 4299 / 4300 / 4301 / 10000 digits (all nines, 1 followed by
    zeros, decimal text of a power of two, a zero-padded 16384 / 16385) and
    integers 10^4299 .. 10^5000 (+-1), powers of two next to the limit (+-1),
    negative ones."""
    out = []
    for nd in (4299, 4300, 4301, 10000):
        out.append("9" * nd)
        out.append("1" + "0" * (nd - 1))
        out.append(big_str(_pow2_with_digits(nd)))
        out.append("0" * (nd - 5) + "16384")
        out.append("0" * (nd - 5) + "16385")
    for e in (4299, 4300, 4301, 5000):
        for d in (-1, 0, 1):
            out.append(10 ** e + d)
    for nd in (4300, 4301):
        p2 = _pow2_with_digits(nd)
        out += [p2 - 1, p2, p2 + 1]
    out += [1 << 14300, (1 << 14300) + 1, 3 << 14300, -(10 ** 5000),
            -(1 << 14300)]
    return out


# strings that are also sub-command words of the command line
CLI_WORDS = ["m", "new", "info", "edit", "check", "create", "magnet",
             "rename", "rebuild", "recheck"]

STRINGS = ["", " ", " 14", "14 ", "+14", "-14", "1e5", "0x10", "16_384", "²",
           "१४", "1.5", "14.0", "abc", "16384k", "١٤", "1٤", "⑭", "½", "Ⅷ",
           "14\n", "\t14", "0b1", "١٦٣٨٤", "𝟏𝟒", "16384 ", "3²"]


def string_spec(s):
    """Expected outcome for a string: plain ASCII decimal digits denote that
    integer; other strings are rejected; a string of non-ASCII decimal digits
    may be read as int() reads it or be rejected."""
    if s.isascii() and s.isdigit():
        sp = spec(big_int(s))
        if len(s) > LIMIT and sp[0] == "accept":
            # more digits than the interpreter converts: reading the number
            # (then the value must be right) and rejecting it with the
            # piece-length error are both taken as conforming
            return ("either", sp[1])
        return sp
    if s.isdigit() or s.isdecimal() or s.isnumeric():
        try:
            v = int(s)
        except ValueError:
            return ("reject",)
        sp = spec(v)
        if sp[0] == "reject":
            return sp
        return ("either", sp[1])
    return ("reject",)


# process-environment axis (mc/envrun.py): piece-length texts that mix ASCII
# digits with characters outside ASCII (an acceptable number is left when the
# other characters are dropped or mangled), non-ASCII digits alone, and
# plain-ASCII controls (valid exponent, valid byte count, invalid number, word)
PENV_VALUES = ["15", "32768", "3000", "abc",
               "16٣", "٣16", "65536é", "16384²",
               "1é6", "é15", "²", "१५",
               "１５", "16€", "日16384"]
_PENV_BODY = r'''
import json, os
C = json.loads({blob!r})
from torrentfile import cli, torrent, utils
OBS = {{}}
for key, route, spec in C["runs"]:
    memo = utils.filelist_total
    if hasattr(memo, "cache"):
        memo.cache.clear()
    try:
        if route == "lib":
            torrent.TorrentFile(**spec).write()
        else:
            cli.execute(spec)
        OBS[key] = ["ok", None]
    except utils.PieceLengthValueError as e:
        OBS[key] = ["plve", str(e)[:100]]
    except BaseException as e:
        OBS[key] = ["exc:" + type(e).__name__, str(e)[:100]]
'''

AUTO_FORMS = ["file", "dir1", "dir3", "link-file", "dir-with-link",
              "link-dir", "nested", "dir-with-linked-subdir", "file@cli",
              "dir-with-link@cli", "dir-with-linked-subdir@cli"]


def _sparse(path, n):
    os.makedirs(os.path.dirname(path), exist_ok=True)
    with open(path, "wb") as f:
        if n:
            f.seek(n - 1)
            f.write(b"\x01")


def auto_payload(parent, form, s):
    """A payload of exactly s bytes in the given on-disk form."""
    form = form.split("@")[0]
    p = os.path.join(parent, "big")
    store = os.path.join(parent, "store")
    if form == "file":
        _sparse(p, s)
    elif form == "dir1":
        _sparse(os.path.join(p, "a"), s)
    elif form == "dir3":
        _sparse(os.path.join(p, "a"), s // 2)
        _sparse(os.path.join(p, "d", "b"), s - s // 2 - 1)
        _sparse(os.path.join(p, "c"), 1)
    elif form == "nested":
        _sparse(os.path.join(p, "x", "y", "z", "a"), s)
    elif form == "link-file":
        _sparse(os.path.join(store, "real"), s)
        os.symlink(os.path.join(store, "real"), p)
    elif form == "dir-with-link":
        _sparse(os.path.join(store, "real"), s - 1)
        _sparse(os.path.join(p, "c"), 1)
        os.symlink(os.path.join(store, "real"), os.path.join(p, "a"))
    elif form == "dir-with-linked-subdir":
        _sparse(os.path.join(store, "realdir", "a"), s - 1)
        _sparse(os.path.join(p, "c"), 1)
        os.symlink(os.path.join(store, "realdir"), os.path.join(p, "sub"))
    elif form == "link-dir":
        _sparse(os.path.join(store, "realdir", "a"), s)
        os.symlink(os.path.join(store, "realdir"), p)
    return p


class PieceLenCheck:
    id = "C12"

    def __init__(self):
        self.assumptions = [
            "normalize_piece_length: every integer -1024..2^24 (quick) / "
            "..2^28 (thorough), every m*2^k (odd m < 2^12, k <= 80), every "
            "2^k +- d (d <= 64, k <= 100), decimal strings of a reduced "
            "range, catalogue of pseudo-numeric strings",
            "a falsy piece length at the creator API means 'not supplied'; "
            "floats are outside the quantifier; exponents 26..29 may go "
            "either way; non-ASCII decimal-digit strings may be read as "
            "int() reads them or rejected with the piece-length error",
            "end-to-end creates only for accepted values <= 2^24 (larger "
            "values would allocate a piece-sized buffer)",
            "get_piece_length: every size <= 2^22 (quick) / 2^26 (thorough) "
            "and c*2^e+d families up to 2^60; monotone along the sorted "
            "enumerated domain",
            "values around the interpreter's 4300-digit int<->str limit "
            "(digit strings of 4299 / 4300 / 4301 / 10000 digits: nines, "
            "10^n, a power of two, zero-padded 16384 / 16385; integers "
            "10^4299..10^5000 +-1, powers of two next to the limit +-1, "
            "2^14300, negative ones) through the validator, the library "
            "creator, the CLI and the config file (rejected values only "
            "end-to-end); a digit string of more than 4300 digits that "
            "denotes a valid value may be read as that value or rejected "
            "with the piece-length error, every invalid one must be rejected "
            "with the piece-length error like any other value",
            "piece-length values that are sub-command words (m, new, info, "
            "edit, ...) are ordinary non-numeric strings through the library, "
            "the config file and `create ... --piece-length <word>`; on a "
            "command line WITHOUT the create word such a value makes the "
            "argument parser refuse the whole command line (SystemExit 2, "
            "usage error) before anything is taken as a piece length: that "
            "outcome is recorded, not judged as 'rejected with the wrong "
            "error' (the quantifier is over values given 'as the piece-length "
            "argument'; here the command line is not understood as a create "
            "command at all); that no metafile appears IS judged, and every "
            "other outcome of that route is judged like the explicit route",
            "automatic choice, end to end, against what already lies at the "
            "output path: {nothing, an unrelated file, a conformant metafile "
            "of the same info.name with piece length 16 KiB / 32 MiB / the "
            "exponent-like value 20, a 32 MiB one of another name, the tool's "
            "own metafile made by the same route when the same content path "
            "held 1 byte} x {library outfile= keyword, CLI -o, config `out`} "
            "x payload sizes {1, 16384001, 32768001} (thorough: six sizes, "
            "two payload forms) x three creators; the choice must be a power "
            "of two in [2^14, 2^24] and monotone over the union of all these "
            "observations (equal payloads: equal choices)",
            "process-environment group (mc/envrun.py): 15 piece-length texts "
            "- plain-ASCII controls (15, 32768, 3000, abc), ASCII digits "
            "mixed with characters outside ASCII so that an acceptable "
            "number is left when those are dropped (`16٣`, `٣16`, `65536é`, "
            "`16384²`, `1é6`, `é15`, `16€`, `日16384`), non-ASCII characters "
            "alone (`²`, `१५`, `１５`) - through the configuration file "
            "(UTF-8 bytes written by the parent), `create --piece-length` "
            "and the TorrentFile keyword, in a child interpreter under EVERY "
            "member of envrun.ENVS (ASCII filesystem / locale encodings with "
            "UTF-8 mode off, POSIX locale, -O, closed / full stdout, removed "
            "working directory, -W error, ...; one child per environment).  "
            "Judged in every environment: an unacceptable value never leaves "
            "a metafile, a metafile that is written records exactly the "
            "denoted value, a valid value is not answered with the "
            "piece-length error.  Reading: in the baseline environment every "
            "rejection must be the piece-length error (as everywhere else in "
            "this check); in the other environments a refusal of another "
            "type that leaves no metafile (the environment could not decode "
            "the file or express the value - it never reached the program as "
            "a piece length) is recorded, not judged",
        ]
        self.rule = (
            "exhaustive integer intervals + structured families; state = one "
            "distinct argument value; transition = one call of the real "
            "validator / creator / CLI; oracle = arithmetic specification; "
            "automatic choice end to end: product payload size x on-disk "
            "form and prior content of the output path x route x creator, "
            "judged for range and for monotonicity over the union; "
            "process-environment axis: piece-length texts (ASCII controls, "
            "ASCII digits mixed with non-ASCII characters, non-ASCII alone) "
            "x route (configuration file, command line, library) x every "
            "named process environment of mc/envrun.py, executed in a child "
            "interpreter under that environment, judged by the same "
            "arithmetic specification on the metafile found by the parent")

    def groups(self, tier, seed):
        gs = []
        # values around the interpreter's 4300-digit int <-> str limit
        gs.append({"kind": "huge"})
        # (long groups early) automatic choice against what already lies at
        # the output path
        for creator in ("Assembler3", "Assembler2", "TorrentFile"):
            gs.append({"kind": "auto-out", "seed": seed, "tier": tier,
                       "creator": creator})
        for route in ("lib", "cli", "config"):
            gs.append({"kind": "e2e", "route": route, "seed": seed,
                       "huge": True})
        # the configuration file / command line / library in a child
        # interpreter under every named process environment
        for env in envrun.ENVS:
            gs.append({"kind": "penv", "env": env, "seed": seed})
        top = 1 << (24 if tier == "quick" else 28)
        step = 1 << 20
        lo = -1024
        while lo < top:
            hi = min(top, lo + step)
            gs.append({"kind": "ints", "lo": lo, "hi": hi})
            lo = hi
        for k0 in range(0, 81, 8):
            gs.append({"kind": "mk", "k0": k0, "k1": min(81, k0 + 8)})
        for k0 in range(0, 101, 10):
            gs.append({"kind": "pm", "k0": k0, "k1": min(101, k0 + 10)})
        gs.append({"kind": "strings"})
        gs.append({"kind": "e2e", "route": "lib", "seed": seed})
        gs.append({"kind": "e2e", "route": "cli", "seed": seed})
        gs.append({"kind": "e2e", "route": "config", "seed": seed})
        top2 = 1 << (22 if tier == "quick" else 26)
        step2 = 1 << 19
        for lo in range(0, top2, step2):
            gs.append({"kind": "auto-ints", "lo": lo, "hi": lo + step2 + 1})
        gs.append({"kind": "auto-fam"})
        for creator in ("TorrentFile", "Assembler2", "Assembler3"):
            gs.append({"kind": "auto-e2e", "seed": seed, "tier": tier,
                       "creator": creator})
        return gs

    # --- validator
    def call(self, x):
        try:
            return ("ok", tf.utils.normalize_piece_length(x))
        except tf.utils.PieceLengthValueError:
            return ("plve",)
        except Exception as e:  # noqa
            return ("exc:" + type(e).__name__,)

    def judge_value(self, res, x, sp, got, where, extra=None):
        res.evals += 1
        res.transitions += 1
        bad = None
        if got[0] == "ok":
            if sp[0] == "reject":
                bad = "accepted-invalid"
            elif got[1] != sp[1] or type(got[1]) is not int:
                bad = "accepted-with-wrong-value"
        elif got[0] == "plve":
            if sp[0] == "accept":
                bad = "rejected-valid"
        else:
            bad = "wrong-exception:" + got[0][4:]
        if bad:
            cls = self.classify(x)
            case = {"kind": "value", "x": enc(x), "isstr": isinstance(x, str),
                    "where": where}
            if extra:
                case.update(extra)
            res.violation(f"C12|{where}|{bad}|{cls}", case,
                          {"got": safe(list(got)), "spec": safe(list(sp))})
            res.outcomes[bad] += 1
        return bad

    @staticmethod
    def classify(x):
        if isinstance(x, str):
            if len(x) > LIMIT and x.isascii() and x.isdigit():
                return "digit-string>4300-digits"
            if x in CLI_WORDS:
                return "string-that-is-a-command-word"
            return "string"
        if abs(x) >= 10 ** LIMIT:
            return "integer>=10^4300" if x > 0 else "integer<=-10^4300"
        if x < 14:
            return "below-14"
        if x < 30:
            return "exponent-window"
        if x < MIN:
            return "30..16383"
        return "pow2" if x & (x - 1) == 0 else "non-pow2>=16384"

    def run_group(self, g):
        res = core.Result()
        kind = g["kind"]
        if kind == "ints":
            f = tf.utils.normalize_piece_length
            PLVE = tf.utils.PieceLengthValueError
            nbad = 0
            for x in range(g["lo"], g["hi"]):
                try:
                    r = f(x)
                except PLVE:
                    r = None
                except Exception as e:  # noqa
                    r = e
                # fast path oracle
                if r is None:
                    ok = not (14 <= x <= 25 or (x >= MIN and not x & (x - 1)))
                elif isinstance(r, int) and not isinstance(r, bool):
                    if 14 <= x <= 29:
                        ok = r == 1 << x
                    else:
                        ok = x >= MIN and not x & (x - 1) and r == x
                else:
                    ok = False
                if not ok:
                    nbad += 1
                    self.judge_value(res, x, spec(x), self.call(x), "normalize")
            n = g["hi"] - g["lo"]
            res.states += n
            res.evals += n
            res.transitions += n
            res.validated += n
            res.outcomes["ok"] += n - nbad
            res.sample({"integers": [g["lo"], g["hi"]]})
            return res
        if kind in ("mk", "pm"):
            xs = set()
            if kind == "mk":
                for k in range(g["k0"], g["k1"]):
                    for m in range(1, 1 << 12, 2):
                        xs.add(m << k)
            else:
                for k in range(g["k0"], g["k1"]):
                    for d in range(-64, 65):
                        xs.add((1 << k) + d)
            for x in sorted(xs):
                b = self.judge_value(res, x, spec(x), self.call(x), "normalize")
                res.validated += 1
                res.states += 1
                if not b:
                    res.outcomes["ok"] += 1
                if -2000 < x < (1 << 22):
                    s = str(x)
                    b = self.judge_value(res, s, string_spec(s), self.call(s),
                                         "normalize-str")
                    res.validated += 1
                    if not b:
                        res.outcomes["ok"] += 1
            res.sample({kind: [g["k0"], g["k1"]]})
            return res
        if kind == "strings":
            for s in STRINGS + [str(i) for i in range(0, 40)] + \
                    ["0" + str(i) for i in range(10, 30)]:
                b = self.judge_value(res, s, string_spec(s), self.call(s),
                                     "normalize-str")
                res.states += 1
                res.validated += 1
                if not b:
                    res.outcomes["ok"] += 1
            res.sample({"strings": STRINGS[:8]})
            return res
        if kind == "huge":
            for x in huge_values():
                isstr = isinstance(x, str)
                b = self.judge_value(res, x, string_spec(x) if isstr else
                                     spec(x), self.call(x), "normalize-str"
                                     if isstr else "normalize")
                res.states += 1
                res.validated += 1
                if not b:
                    res.outcomes["ok"] += 1
            res.sample({"huge": "digit strings of 4299..10000 digits, "
                                "integers 10^4299..10^5000"})
            return res
        if kind == "e2e":
            return self.run_e2e(g, res)
        if kind == "auto-out":
            return self.run_auto_out(g, res)
        if kind == "penv":
            return self.run_penv(g, res)
        if kind == "auto-ints":
            f = tf.utils.get_piece_length
            prev = f(g["lo"])
            for s in range(g["lo"], g["hi"]):
                r = f(s)
                if not (MIN <= r <= 1 << 24 and r & (r - 1) == 0) or r < prev:
                    res.violation("C12|auto|bad-choice",
                                  {"kind": "auto", "size": s}, {"got": r,
                                                                "prev": prev})
                prev = r
            n = g["hi"] - g["lo"]
            res.states += n
            res.evals += n
            res.transitions += n
            res.validated += n
            res.outcomes["ok"] += n
            return res
        if kind == "auto-fam":
            f = tf.utils.get_piece_length
            xs = set()
            for c in (1, 3, 5, 7, 125, 250, 500, 999, 1000, 1001, 1023, 1024,
                      1025):
                for e in range(0, 51):
                    for d in range(-64, 65):
                        v = c * (1 << e) + d
                        if v >= 0:
                            xs.add(v)
            prev = MIN
            for s in sorted(xs):
                r = f(s)
                res.states += 1
                res.evals += 1
                res.transitions += 1
                res.validated += 1
                if not (MIN <= r <= 1 << 24 and r & (r - 1) == 0) or r < prev:
                    res.violation("C12|auto|bad-choice",
                                  {"kind": "auto", "size": s},
                                  {"got": r, "prev": prev})
                else:
                    res.outcomes["ok"] += 1
                prev = max(prev, r)
            return res
        if kind == "auto-e2e":
            # the payload in several on-disk forms; the choice is a function
            # of the payload's size alone, so it must be monotone over the
            # union of all forms (a form that is under-counted shows up as a
            # decrease against a smaller payload in another form).  The size
            # is taken from the metafile's own file list, so a tree that
            # leaves some entries out consistently is not blamed here.
            sizes = [0, 1, 16384000 - 1, 16384000, 16384001, 32768000,
                     32768001]
            if g.get("tier") == "thorough":
                sizes += [65536000, 65536001]
            creator = g.get("creator", "TorrentFile")
            seen = []     # (size, form, pl)
            for s in sizes:
                for form in AUTO_FORMS:
                    if s == 0 and form != "file":
                        continue
                    parent = world.fresh_dir()
                    try:
                        p = auto_payload(parent, form, s)
                    except OSError:
                        continue
                    tf.reset_process_state()
                    out = os.path.join(parent, "o.torrent")
                    ds = s
                    try:
                        if form.endswith("@cli"):
                            ver = {"TorrentFile": "1", "Assembler2": "2",
                                   "Assembler3": "3"}[creator]
                            tf.execute(["create", p, "-o", out, "--prog", "0",
                                        "--meta-version", ver])
                            with open(out, "rb") as f:
                                raw = f.read()
                        else:
                            raw = tf.create(creator, p, out, None)
                        meta = bencode.decode(raw, strict=False)
                        pl = meta[b"info"][b"piece length"]
                        # the payload as the metafile itself describes it
                        ds = sum(ln for _p, ln, pad, _l in
                                 model.payload_layout(meta)[2] if not pad)
                    except Exception as e:  # noqa
                        pl = "raised:" + type(e).__name__
                    shutil.rmtree(parent, ignore_errors=True)
                    res.states += 1
                    res.evals += 1
                    res.transitions += 1
                    res.validated += 1
                    ok = isinstance(pl, int) and MIN <= pl <= 1 << 24 and \
                        pl & (pl - 1) == 0
                    lower = [x for x in seen if x[0] <= ds and ok and
                             isinstance(x[2], int) and x[2] > pl]
                    if not ok or lower:
                        res.violation(
                            "C12|auto-e2e|bad-choice|" + form.split("@")[0],
                            {"kind": "auto-e2e", "size": s, "form": form,
                             "creator": creator},
                            {"got": pl, "smaller-payload-got-more": lower[:2]})
                    else:
                        res.outcomes["ok"] += 1
                    seen.append((ds, form, pl))
            return res
        raise ValueError(kind)

    # --- automatic choice against what already lies at the output path
    OUT_PRIORS = ["nothing", "unrelated", "meta-16k", "meta-32m",
                  "meta-exp20", "meta-other-name", "own-small"]
    OUT_ROUTES = ["lib-outfile", "cli-o", "config-out"]

    @staticmethod
    def _foreign_meta(name, pl):
        """A small conformant single-file v1 metafile (reference encoder)."""
        import hashlib
        body = b"earlier payload"
        return bencode.encode({
            b"announce": b"http://tracker.invalid/announce",
            b"created by": b"ref",
            b"info": {b"length": len(body), b"name": name.encode(),
                      b"piece length": pl,
                      b"pieces": hashlib.sha1(body).digest()}})

    def _create_auto(self, route, creator, p, out, parent):
        """Create a metafile for p at out WITHOUT a piece length; the output
        path is known to the creator from the start."""
        ver = {"TorrentFile": "1", "Assembler2": "2", "Assembler3": "3"}[
            creator]
        tf.reset_process_state()
        if route == "lib-outfile":
            return tf.create(creator, p, out, None)
        if route == "cli-o":
            tf.execute(["create", p, "-o", out, "--prog", "0",
                        "--meta-version", ver])
        else:
            cfg = os.path.join(parent, "c.ini")
            with open(cfg, "w") as f:
                f.write(f"[config]\nout = {out}\n")
            tf.execute(["create", "--config", "--config-path", cfg,
                        "--prog", "0", "--meta-version", ver, p])
        with open(out, "rb") as f:
            return f.read()

    def run_auto_out(self, g, res):
        """The automatic choice is a function of the payload alone: whatever
        lies at the output path beforehand, the recorded value is a power of
        two in [2^14, 2^24] and monotone over the UNION of all observations
        (priors x routes x sizes)."""
        creator = g["creator"]
        # (the thresholds themselves are walked by the auto-e2e groups)
        sizes = [1, 16384001, 32768001]
        forms = ["file"]
        if g.get("tier") == "thorough":
            sizes = [1, 16384000, 16384001, 32768000, 32768001, 65536001]
            forms = ["file", "dir3"]
        obs = []     # (described size, pl, case)
        for s in sizes:
            for form in forms:
                for route in self.OUT_ROUTES:
                    for prior in self.OUT_PRIORS:
                        parent = world.fresh_dir()
                        out = os.path.join(parent, "o.torrent")
                        case = {"kind": "auto-out", "size": s, "form": form,
                                "prior": prior, "route": route,
                                "creator": creator,
                                "tier": g.get("tier", "quick")}
                        ds = s
                        try:
                            if prior == "own-small":
                                # the same content path when it was small,
                                # its metafile made by the same route
                                p = auto_payload(parent, form, 3 if form ==
                                                 "dir3" else 1)
                                self._create_auto(route, creator, p, out,
                                                  parent)
                                shutil.rmtree(p) if os.path.isdir(p) else \
                                    os.remove(p)
                            p = auto_payload(parent, form, s)
                            name = os.path.basename(p)
                            if prior == "unrelated":
                                with open(out, "wb") as f:
                                    f.write(b"not a metafile\n" * 40)
                            elif prior.startswith("meta-"):
                                pl0 = {"meta-16k": 1 << 14,
                                       "meta-32m": 1 << 25, "meta-exp20": 20,
                                       "meta-other-name": 1 << 25}[prior]
                                nm = name + ".v0" if prior == \
                                    "meta-other-name" else name
                                with open(out, "wb") as f:
                                    f.write(self._foreign_meta(nm, pl0))
                            raw = self._create_auto(route, creator, p, out,
                                                    parent)
                            meta = bencode.decode(raw, strict=False)
                            pl = meta[b"info"][b"piece length"]
                            ds = sum(ln for _p, ln, pad, _l in
                                     model.payload_layout(meta)[2] if not pad)
                        except Exception as e:  # noqa
                            pl = "raised:" + type(e).__name__
                        shutil.rmtree(parent, ignore_errors=True)
                        res.states += 1
                        res.evals += 1
                        res.transitions += 1
                        res.validated += 1
                        obs.append((ds, pl, case))
        blamed = {}
        for ds, pl, case in obs:
            if not (isinstance(pl, int) and MIN <= pl <= 1 << 24 and
                    pl & (pl - 1) == 0):
                blamed[id(case)] = (case, {"got": pl, "why": "not a power of "
                                           "two in [2^14, 2^24]"})
        good = [o for o in obs if id(o[2]) not in blamed]
        # every pair (a, b) with size(a) <= size(b) and choice(a) > choice(b)
        # is a decrease along growing payloads; at least one member of every
        # such pair is reported.  Which one: the observations with nothing at
        # the output path are the chain the others are compared with, so a
        # pair with one bare member names the other member; otherwise the
        # larger payload, unless a member is already reported.
        bare = lambda o: o[2]["prior"] == "nothing"
        pairs = [(a, b) for a in good for b in good
                 if a[0] <= b[0] and a[1] > b[1]]

        def blame(c, o):
            blamed.setdefault(id(c[2]), (c[2], {
                "got": c[1], "described-size": c[0],
                "why": "decreases along growing payloads",
                "against": {"described-size": o[0], "got": o[1],
                            "prior": o[2]["prior"],
                            "route": o[2]["route"]}}))
        for a, b in pairs:
            if bare(a) and not bare(b):
                blame(b, a)
            elif bare(b) and not bare(a):
                blame(a, b)
            elif bare(a) and bare(b):
                blame(b, a)
        for a, b in pairs:
            if id(a[2]) not in blamed and id(b[2]) not in blamed:
                blame(b, a)
        for ds, pl, case in obs:
            if id(case) in blamed:
                c, d = blamed[id(case)]
                res.violation(f"C12|auto-e2e|bad-choice|out:{c['prior']}",
                              c, d)
            else:
                res.outcomes["ok"] += 1
        res.sample({"auto-out": creator, "observations": len(obs)})
        return res

    def e2e_values(self):
        xs = set(range(-2, 71))
        for k in range(0, 41):
            xs |= {(1 << k) - 1, 1 << k, (1 << k) + 1}
        xs |= {16385, 16395, 32769, 49152, 1 << 24, (1 << 24) + 1}
        return sorted(xs)

    E2E_STRINGS = ["false", "False", "true", "abc", "auto", "none", "1e5",
                   "0x4000", "16384.0", "2**14", "15\n", " 15", "15 ", "+15",
                   "१५", "-15", "16_384"]

    def run_e2e(self, g, res, only=None):
        """only = enc() text of the one value to run (replay)."""
        route = g["route"]
        seed = g["seed"]
        parent = world.fresh_dir()
        payload = os.path.join(parent, "f")
        with open(payload, "wb") as f:
            f.write(world.content(seed, 0, 20000))
        n = 0
        if g.get("huge"):
            values = huge_values()
        else:
            values = self.e2e_values() + self.E2E_STRINGS + CLI_WORDS
        subroutes = [route]
        if route == "cli" and not g.get("huge"):
            subroutes.append("cli-implicit")
        for sub in subroutes:
            if sub == "cli-implicit":
                # no `create` word: the command line is taken as a create
                # command unless some argument equals a sub-command word
                values = CLI_WORDS + ["abc", "15", "16385", "14 "]
            for x in values:
                if only is not None and enc(x) != only:
                    continue
                if isinstance(x, str):
                    sp = string_spec(x)
                    if route == "config":
                        # configparser strips surrounding whitespace itself
                        sp = string_spec(x.strip())
                    if route != "lib" and x.startswith("-"):
                        continue   # argparse would read it as an option
                    forms = [x]
                else:
                    sp = spec(x)
                    forms = [x] if route == "lib" else []
                    if x >= 0:
                        forms.append(big_str(x))
                    elif route != "lib":
                        continue
                if sp[0] != "reject" and sp[1] > (1 << 24):
                    continue
                for arg in forms:
                    if route == "lib" and not arg:
                        continue   # falsy = not supplied
                    n += 1
                    out = os.path.join(parent, f"o{n}.torrent")
                    tf.reset_process_state()
                    try:
                        if route == "lib":
                            tf.create("TorrentFile", payload, out, arg)
                        elif sub == "cli-implicit":
                            tf.execute([payload, "-o", out, "--piece-length",
                                        arg, "--prog", "0"])
                        elif route == "cli":
                            tf.execute(["create", payload, "-o", out,
                                        "--piece-length", arg, "--prog", "0"])
                        else:
                            cfg = os.path.join(parent, f"c{n}.ini")
                            with open(cfg, "w") as f:
                                f.write(f"[config]\npiece-length = {arg}\n")
                            tf.execute(["create", "--config", "--config-path",
                                        cfg, "-o", out, "--prog", "0",
                                        payload])
                        with open(out, "rb") as f:
                            pl = bencode.decode(f.read(), strict=False)[
                                b"info"][b"piece length"]
                        got = ("ok", pl)
                    except tf.utils.PieceLengthValueError:
                        got = ("plve",)
                    except BaseException as e:  # noqa
                        got = ("exc:" + type(e).__name__,)
                    res.states += 1
                    res.validated += 1
                    extra = {"huge": True} if g.get("huge") else None
                    if sub == "cli-implicit" and arg in CLI_WORDS and \
                            got[0] == "exc:SystemExit":
                        # the parser's usage error: the command line as a
                        # whole was not understood as a create command, the
                        # value was never taken as a piece length.  Recorded,
                        # not judged (see `assumptions`); that no metafile
                        # appears is judged below.
                        res.outcomes["implicit-create:command-word:"
                                     "usage-error"] += 1
                        res.evals += 1
                        res.transitions += 1
                    else:
                        bad = self.judge_value(
                            res, arg, string_spec(arg.strip() if route ==
                                                  "config" else arg)
                            if isinstance(arg, str) else sp, got,
                            "e2e-" + sub, extra)
                        if not bad:
                            res.outcomes["ok"] += 1
                    if got[0] != "ok" and os.path.exists(out):
                        res.violation(
                            f"C12|e2e-{sub}|metafile-written-despite-"
                            "rejection", {"kind": "value", "x": enc(arg),
                                          "isstr": isinstance(arg, str),
                                          "where": "e2e-" + sub,
                                          "huge": bool(g.get("huge"))}, None)
        res.sample({"e2e": route, "values": n, "huge": bool(g.get("huge"))})
        return res

    # --- process environment
    def run_penv(self, g, res, only=None):
        """Every value of PENV_VALUES through the configuration file (written
        by the parent as UTF-8 bytes), the command line and the library in a
        child interpreter under one named process environment; the parent
        reads `piece length` out of whatever lies at the output path.
        Judged in every environment: a value that does not denote an
        acceptable piece length never leaves a metafile; a metafile that is
        written records exactly the denoted value; a valid value is not
        answered with the piece-length error.  In the baseline environment
        the full rule applies (every rejection is the piece-length error); in
        the others a refusal of another type that leaves no metafile (the
        environment could not read the file / express the value) is
        recorded, not judged."""
        import json
        seed, env = g["seed"], g["env"]
        parent = world.fresh_dir()
        payload = os.path.join(parent, "f")
        with open(payload, "wb") as f:
            f.write(world.content(seed, 0, 20000))
        runs, plan = [], []
        for route in ("config", "cli", "lib"):
            for i, x in enumerate(PENV_VALUES):
                out = os.path.join(parent, f"o_{route}_{i}.torrent")
                if route == "lib":
                    spec = {"path": payload, "outfile": out, "progress": 0,
                            "piece_length": x}
                elif route == "cli":
                    spec = ["create", payload, "-o", out, "--piece-length", x,
                            "--prog", "0"]
                else:
                    cfg = os.path.join(parent, f"c_{i}.ini")
                    with open(cfg, "wb") as f:
                        f.write(f"[config]\npiece-length = {x}\n".encode(
                            "utf-8"))
                    spec = ["create", "--config", "--config-path", cfg, "-o",
                            out, "--prog", "0", payload]
                runs.append([f"{route}/{i}", route, spec])
                plan.append((route, i, x, out))
        blob = json.dumps({"runs": runs})
        wd = os.path.join(parent, "wd")
        os.mkdir(wd)
        rep = envrun.run(env, _PENV_BODY.format(blob=blob), cwd=wd)
        res.extra["child_interpreters"] += 1
        if not rep["report"] or not isinstance(rep["obs"], dict) or \
                len(rep["obs"]) != len(runs):
            res.outcomes[f"penv:{env}:child-did-not-report"] += 1
            shutil.rmtree(parent, ignore_errors=True)
            if env == "default":
                raise core.InfraError("penv child did not report: " +
                                      str(rep)[:600])
            return res
        for route, i, x, out in plan:
            st, msg = rep["obs"][f"{route}/{i}"]
            # configparser strips surrounding whitespace itself
            sp = string_spec(x.strip() if route == "config" else x)
            pl = None
            if os.path.exists(out):
                try:
                    with open(out, "rb") as f:
                        pl = bencode.decode(f.read(), strict=False)[
                            b"info"][b"piece length"]
                except Exception as e:  # noqa
                    pl = "unreadable:" + type(e).__name__
            res.states += 1
            res.evals += 1
            res.transitions += 1
            res.validated += 1
            bad = None
            if pl is not None:
                if sp[0] == "reject":
                    bad = "accepted-invalid" if st == "ok" else \
                        "metafile-written-despite-rejection"
                elif pl != sp[1] or type(pl) is not int:
                    bad = "accepted-with-wrong-value"
            elif st == "plve":
                if sp[0] == "accept":
                    bad = "rejected-valid"
            elif st == "ok":
                # no exception and nothing at the output path
                if env == "default":
                    bad = "no-metafile-and-no-error"
                else:
                    res.outcomes[f"penv:{env}:no-metafile-and-no-error"] += 1
            elif env == "default":
                bad = "wrong-exception:" + st[4:]
            else:
                res.outcomes[f"penv:{env}:refused-other:{st[4:]}"] += 1
            if bad:
                if only is None or (only["x"] == x and
                                    only["route"] == route):
                    res.violation(
                        f"C12|e2e-{route}|{bad}|{self.classify(x)}|"
                        f"penv:{env}",
                        {"kind": "penv", "env": env, "route": route, "x": x,
                         "seed": seed},
                        {"status": st, "message": msg, "recorded": pl,
                         "spec": list(sp)})
                res.outcomes[bad] += 1
            elif pl is not None or st == "plve":
                res.outcomes["ok"] += 1
        shutil.rmtree(parent, ignore_errors=True)
        res.sample({"penv": env, "values": len(PENV_VALUES)})
        return res

    def replay(self, case):
        if case["kind"] == "penv":
            res = self.run_penv({"env": case["env"], "seed": case["seed"]},
                                core.Result(), only=case)
            return [{"sig": v["sig"], "detail": v["detail"]}
                    for v in res.violations]
        if case["kind"] in ("value", "e2e"):
            if "isstr" not in case:      # replay files of earlier rounds
                case = dict(case, isstr=True, where="e2e-" + case["route"])
            x = case["x"] if case["isstr"] else dec_int(case["x"])
            sp = string_spec(x) if case["isstr"] else spec(x)
            res = core.Result()
            if case["where"].startswith("normalize"):
                self.judge_value(res, x, sp, self.call(x), case["where"])
            else:
                sub = case["where"][4:]
                # a decimal string may stand for itself or for the integer
                # it was derived from: run every value with this text
                texts = {case["x"]}
                if case["isstr"] and x.isascii() and x.isdigit():
                    texts.add(enc(big_int(x)))
                for t in sorted(texts):
                    self.run_e2e({"route": sub.split("-")[0], "seed": 0,
                                  "huge": case.get("huge")}, res, only=t)
                res.violations = [v for v in res.violations
                                  if v["case"].get("x") == case["x"]
                                  and v["case"].get("where") == case["where"]]
            seen = set()
            out = []
            for v in res.violations:
                if v["sig"] not in seen:
                    seen.add(v["sig"])
                    out.append({"sig": v["sig"], "detail": v["detail"]})
            return out
        res = core.Result()
        if case["kind"] == "auto-out":
            res = self.run_group({"kind": "auto-out", "seed": 0,
                                  "tier": case.get("tier", "quick"),
                                  "creator": case["creator"]})
            return [{"sig": v["sig"], "detail": v["detail"]}
                    for v in res.violations
                    if all(v["case"][k] == case[k]
                           for k in ("size", "form", "prior", "route"))]
        if case["kind"] == "auto-e2e":
            res = self.run_group({"kind": "auto-e2e", "seed": 0,
                                  "tier": "thorough" if case["size"] > 4e7
                                  else "quick",
                                  "creator": case.get("creator",
                                                      "TorrentFile")})
            return [{"sig": v["sig"], "detail": v["detail"]}
                    for v in res.violations
                    if v["case"]["size"] == case["size"]
                    and v["case"]["form"] == case["form"]]
        if case["kind"] == "auto":
            r = tf.utils.get_piece_length(case["size"])
            if not (MIN <= r <= 1 << 24 and r & (r - 1) == 0):
                return [{"sig": "C12|auto|bad-choice", "detail": r}]
            return []
        return []


def make(pid):
    return PieceLenCheck()
