"""C06, C07 (engine E3: fixpoint BFS over edit histories, state = metafile bytes;
C06 additionally a creation sweep over option subsets and listing orders) and
C17 (engine E2: fault / crash exploration of one edit with the FS shim)."""
import collections
import itertools
import os

from mc import core, e2, envrun, fsshim, seams, tf, world
from mc.ref import bencode, model

P0 = 16384

# ------------------------------------------------- names that are not UTF-8
# POSIX file names are byte strings.  A name that is not valid UTF-8 reaches
# Python with the offending bytes escaped as lone surrogates (U+DC80..U+DCFF);
# the order of such `str` names is NOT the order of the raw bytes (the order
# bencoding demands of dictionary keys) whenever, after a common prefix, an
# undecodable byte meets a multi-byte character.  Each shape pairs such names
# inside one directory; the pairs are chosen so that str order and raw-byte
# order DISAGREE (asserted in raw_name_shapes()).


def _fs(b):
    return os.fsdecode(b)


RAW_NAME_SHAPES = {
    # cp1252 quotation marks (stray continuation bytes 0x93 / 0x94) next to a
    # two-byte character: 93 < C3, but U+DC93 > U+00E9
    "D3r-cp1252": [(_fs(b"\x93live\x94.txt"),), ("édition.txt",),
                   ("d", "b")],
    # a name cut off in the middle of a multi-byte character next to the
    # complete name: the cut name is a byte-wise prefix of the complete one
    "D3r-cut": [(_fs(b"track-\xe3\x81\x82\xe3\x81"),),
                ("track-あい",), ("z",)],
    # a byte that never occurs in UTF-8 (0xF5..0xFF) next to a four-byte
    # character (emoji): F0 < FF, but U+DCFF < U+1F600
    "D3r-ff": [(_fs(b"\xffx.bin"),), ("\U0001f600.bin",), ("a",)],
    # the same relations one level down and between DIRECTORY names
    "D3r-sub": [("d", _fs(b"\x80")), ("d", "ü"), ("e",)],
    "D3r-dirs": [(_fs(b"\xfe\xfe"), "x"), ("\U0001f600", "y"),
                 (_fs(b"\x93"), "z")],
    # control: an undecodable name whose str order agrees with its byte
    # order (latin-1 e-acute E9 next to UTF-8 C3 A9, and among ASCII names)
    "D3r-latin1": [(_fs(b"caf\xe9"),), ("café",), ("cafz",)],
}
_RAW_DISAGREE = ("D3r-cp1252", "D3r-cut", "D3r-ff", "D3r-sub", "D3r-dirs")
world.SHAPES.update(RAW_NAME_SHAPES)


def raw_name_shapes():
    """Names of the shapes above, after checking that the catalogue still has
    the property it is there for (a self-check of the harness)."""
    for sh in RAW_NAME_SHAPES:
        rels = RAW_NAME_SHAPES[sh]
        bad = [n for rel in rels for n in rel
               if not _encodable(n)]
        if not bad:
            raise core.InfraError(f"{sh}: no undecodable name")
        by_dir = collections.defaultdict(set)
        for rel in rels:
            for i, n in enumerate(rel):
                by_dir[rel[:i]].add(n)
        differ = any(sorted(ns) != sorted(ns, key=os.fsencode)
                     for ns in by_dir.values())
        if differ != (sh in _RAW_DISAGREE):
            raise core.InfraError(f"{sh}: str order vs byte order: {differ}")
    return list(RAW_NAME_SHAPES)


def _encodable(n):
    try:
        n.encode("utf-8")
        return True
    except UnicodeEncodeError:
        return False


# ---------------------------------------------------------------- base files

OPTS_ALL = dict(announce=["http://t1/a", "http://t2/a"], comment="c0",
                source="s0", private=True, url_list=["http://w0/"],
                httpseeds=["http://h0/"])


def base_world(seed):
    """A payload with three multi-piece files; content ids are searched
    deterministically so that the pieces roots in traversal order are NOT in
    ascending byte order (and, for the 'sorted' variant, are)."""
    sizes = [2 * P0 + 1, P0 + 5, 3 * P0]
    found = {}
    from mc.ref import bep
    for perm in itertools.permutations(range(6), 3):
        w = {"shape": "D3", "sizes": sizes, "cids": list(perm)}
        files = world.files_of(w, seed)
        roots = [bep.v2_file(d, P0, 16384)[0] for _, d in files]
        asc = roots == sorted(roots)
        key = "sorted" if asc else "unsorted"
        if key not in found:
            found[key] = w
        if len(found) == 2:
            break
    return found


def make_base(kind, seed, workdir):
    """Create an initial metafile; returns raw bytes.  kind = (version, opts)
    with version in v1|v2|hy and opts in bare|full|foreign."""
    ver, opts = kind
    if opts in ("big", "huge"):
        # a metafile of about 20 KiB (longer than the I/O buffer sizes) /
        # of about 140 KiB (longer than two 64 KiB blocks)
        n = 1000 if opts == "big" else 7000
        pieces = world.content(seed, 77, n * 20)
        return bencode.encode({b"info": {
            b"name": b"big", b"piece length": P0, b"length": n * P0,
            b"pieces": pieces}, b"announce": b"http://t/a"})
    bw = base_world(seed)["unsorted"]
    files = world.files_of(bw, seed)
    if opts == "names":
        # payload entries named like the editable fields
        files = [(("comment",), files[0][1]),
                 (("source", "private"), files[1][1]),
                 (("announce",), files[2][1]),
                 (("url-list", "httpseeds"), b"x")]
    parent = os.path.join(workdir, "payload")
    os.makedirs(parent, exist_ok=True)
    root = world.materialize(files, parent)
    if opts == "foreign":
        tree = dict(files)
        name = world.ROOT_NAME
        if ver == "v1":
            meta = model.ref_v1(name, tree, P0)
        elif ver == "v2":
            meta = model.ref_v2(name, tree, P0, 16384)
        else:
            meta = model.ref_hybrid(name, tree, P0, 16384)
        meta[b"x-extra"] = b"\xff\xfe\x00raw"
        meta[b"created by"] = b"ref"
        meta[b"creation date"] = 1
        meta[b"zz-list"] = [b"\x80", 7, [b"a"]]
        meta[b"\xffnon-utf8-key"] = {b"\xfe": 1, b"a": b"\x00"}
        meta[b"announce"] = b"http://f/a"
        meta[b"announce-list"] = [[b"http://f/a"], [b"http://f/b"]]
        meta[b"info"][b"x-info"] = [b"\x80\x81", 1]
        meta[b"info"][b"zz"] = {b"k": b"\xfe"}
        return bencode.encode(meta)
    if opts == "cross":
        # a foreign metafile that carries, in the *other* dictionary, keys
        # named like the editable fields: top-level comment / source / private
        # (customary for comment) and info-level announce / announce-list /
        # url-list / httpseeds (unknown info keys as far as torrentfile goes)
        tree = dict(files)
        name = world.ROOT_NAME
        meta = model.ref_v1(name, tree, P0) if ver == "v1" else (
            model.ref_v2(name, tree, P0, 16384) if ver == "v2"
            else model.ref_hybrid(name, tree, P0, 16384))
        meta[b"comment"] = b"top-level comment"
        meta[b"source"] = b"top-level source"
        meta[b"private"] = 0
        meta[b"info"][b"announce"] = b"info-level announce"
        meta[b"info"][b"announce-list"] = [[b"info-level"]]
        meta[b"info"][b"url-list"] = [b"info-level url-list"]
        meta[b"info"][b"httpseeds"] = b"info-level httpseeds"
        return bencode.encode(meta)
    if opts == "falsy":
        # a foreign metafile whose optional fields are present but empty /
        # zero (as some encoders write them): unnamed ones stay as they are
        tree = dict(files)
        name = world.ROOT_NAME
        meta = model.ref_v1(name, tree, P0) if ver == "v1" else (
            model.ref_v2(name, tree, P0, 16384) if ver == "v2"
            else model.ref_hybrid(name, tree, P0, 16384))
        meta[b"info"][b"private"] = 0
        meta[b"info"][b"comment"] = b""
        meta[b"info"][b"source"] = b""
        meta[b"url-list"] = []
        meta[b"httpseeds"] = []
        meta[b"announce"] = b"http://f/a"
        meta[b"announce-list"] = []
        return bencode.encode(meta)
    if opts == "nested":
        # well-formed but with nested dictionaries in insertion order: file
        # entries written path-before-length, leaves pieces-root-before-
        # length, the file tree's children in reverse order
        tree = dict(files)
        name = world.ROOT_NAME
        meta = bencode.plain(bencode.decode(bencode.encode(
            model.ref_v1(name, tree, P0) if ver == "v1" else (
                model.ref_v2(name, tree, P0, 16384) if ver == "v2"
                else model.ref_hybrid(name, tree, P0, 16384)),
        ), strict=False))
        meta[b"announce"] = b"http://f/a"
        meta[b"info"][b"comment"] = b"old comment"
        meta[b"info"][b"private"] = 1

        def enc_rev(v, top=False):
            if isinstance(v, dict):
                keys = sorted(v) if top else sorted(v, reverse=True)
                return b"d" + b"".join(bencode.encode(k) + enc_rev(v[k])
                                       for k in keys) + b"e"
            if isinstance(v, list):
                return b"l" + b"".join(enc_rev(x) for x in v) + b"e"
            return bencode.encode(v)
        ib = b"d" + b"".join(bencode.encode(k) + enc_rev(meta[b"info"][k])
                             for k in sorted(meta[b"info"])) + b"e"
        return b"d" + b"".join(
            bencode.encode(k) + (ib if k == b"info" else
                                 bencode.encode(meta[k]))
            for k in sorted(meta)) + b"e"
    creator = {"v1": "TorrentFile", "v2": "Assembler2", "hy": "Assembler3"}[ver]
    kw = dict(OPTS_ALL) if opts in ("full", "legacy") else {}
    tf.reset_process_state()
    out = os.path.join(workdir, "base.torrent")
    raw = tf.create(creator, root, out, P0, **kw)
    if opts == "legacy":
        # a metafile as older releases of this tool left it after an edit:
        # keys in insertion order (comment / source / private after pieces,
        # announce after info) -- well-formed but not canonical
        m = bencode.decode(raw, strict=False)
        info = m[b"info"]
        iorder = [k for k in info if k not in (b"comment", b"source",
                                               b"private")] + \
            [k for k in (b"private", b"comment", b"source") if k in info]
        torder = [k for k in m if k not in (b"announce", b"announce-list")] + \
            [k for k in (b"announce-list", b"announce") if k in m]

        def enc(v):
            return bencode.encode(bencode.plain(v))
        ibytes = b"d" + b"".join(enc(k) + enc(info[k]) for k in iorder) + b"e"
        raw = b"d" + b"".join(
            enc(k) + (ibytes if k == b"info" else enc(m[k]))
            for k in torder) + b"e"
    return raw


# ------------------------------------------------------------- edit alphabet

FIELDS = ["announce", "url-list", "httpseeds", "comment", "source", "private"]
TRACKERLIKE = {"announce", "url-list", "httpseeds"}

LIB_VALUES = {
    "comment": ["c1", "c2 tw\u00f6 w\u00f6rds \u65e5", ""],
    "source": ["s1", ""],
    "private": [True, ""],
    "announce": ["http://u1/a http://u2/a", ["http://u3/a"], ""],
    "url-list": ["http://w1/ http://w2/", ["http://w3/"], ""],
    "httpseeds": [["http://h1/"], "http://h2/ http://h3/", ""],
}
CLI_VALUES = {
    "comment": ["c1", "c2 tw\u00f6 w\u00f6rds \u65e5", ""],
    "source": ["s1", ""],
    "private": [True],
    "announce": [["http://u1/a", "http://u2/a"], ["http://u3/a"]],
    "url-list": [["http://w1/", "http://w2/"], ["http://w3/"]],
    "httpseeds": [["http://h1/"]],
}
CLI_FLAG = {"announce": "--tracker", "url-list": "--web-seed",
            "httpseeds": "--http-seed", "comment": "--comment",
            "source": "--source", "private": "--private"}


SMALL = {
    "comment": 2, "source": 2, "private": 2, "announce": 3, "url-list": 2,
    "httpseeds": 2,
}


def _vals(route, field, small):
    vals = (LIB_VALUES if route == "lib" else CLI_VALUES)[field]
    if not small:
        return vals
    if route == "lib":
        # keep the clearing value (last) and the first values
        keep = vals[:SMALL[field] - 1] + [vals[-1]]
    else:
        keep = vals[:max(1, SMALL[field] - 1)]
        if vals[-1] == "" and "" not in keep:
            keep = keep[:-1] + [""] if len(keep) > 1 else keep + [""]
    out = []
    for v in keep:
        if v not in out:
            out.append(v)
    return out


def requests(route, tier):
    """(single-field requests, two-field requests)."""
    small_single = [((f, v),) for f in FIELDS for v in _vals(route, f, True)]
    if tier == "quick":
        single = small_single
    else:
        single = [((f, v),) for f in FIELDS for v in _vals(route, f, False)]
    pairs = []
    for (a,), (b,) in itertools.combinations(small_single, 2):
        if a[0] != b[0]:
            pairs.append((a, b))
    return single, pairs


def _text(b):
    """A stored byte string as a request value (None if it cannot be one)."""
    if not isinstance(b, bytes):
        return None
    try:
        t = b.decode("utf-8")
    except UnicodeDecodeError:
        return None
    if not t.strip() or t.startswith("-") or "\x00" in t:
        return None
    return t


def overlap_requests(raw, route):
    """Single-field requests whose value is (part of) what the metafile ALREADY
    stores under the field's name: in the dictionary where the field lives, or
    under the same name in the other dictionary.  Such a request is as much a
    write as any other (the field must end up holding the model's value: for
    the tracker `announce` = first URL and `announce-list` = [URLs]); an
    implementation that skips "unchanged" values must still get that right."""
    try:
        top = bencode.plain(bencode.decode(raw, strict=False))
    except bencode.BencodeError:
        return []
    info = top.get(b"info") if isinstance(top, dict) else None
    if not isinstance(info, dict):
        return []
    out = []

    def add(f, v):
        r = ((f, v),)
        if r not in out:
            out.append(r)

    for f in FIELDS:
        key = f.encode()
        stored = [top.get(key), info.get(key)]
        if f == "announce":
            for d in (top, info):
                al = d.get(b"announce-list")
                if isinstance(al, list) and al and isinstance(al[0], list):
                    stored.append(al[0])
        for sv in stored:
            if f == "private":
                if sv == 1:
                    add(f, True)
                continue
            if isinstance(sv, bytes):
                t = _text(sv)
                if t is None:
                    continue
                if f in TRACKERLIKE:
                    add(f, [t])
                    if route == "lib":
                        add(f, t)
                else:
                    add(f, t)
            elif isinstance(sv, list) and sv and f in TRACKERLIKE:
                items = [_text(x) for x in sv]
                if any(x is None for x in items):
                    continue
                add(f, list(items))
                if len(items) > 1:
                    add(f, [items[0]])
                if route == "lib" and not any(len(x.split()) != 1
                                              for x in items):
                    add(f, " ".join(items))
                    add(f, items[0])
    return out


# effective debug logging while the edit runs: the global CLI flag -v, a host
# program that set the `torrentfile` logger (or the root logger) to DEBUG
DEBUG_VARIANTS = {"lib": ["debug", "rootdebug", "reuse"], "cli": ["v"]}

# library surface: the sub-command handler commands.edit called DIRECTLY by a
# host program with an argparse.Namespace it built itself.  The attributes are
# the parser's: metafile, announce, url_list, httpseeds, comment, source,
# private (a store_true flag: True | False, where False means "not named").
# The list fields take what edit_torrent documents - a string of
# whitespace-separated URLs, a list, "" to clear, None when unnamed - and, in
# the `ns-tuple` variant, the list values as TUPLES (what other front ends
# deliver for a repeated option; outside the statement's "string or list", so
# judged weakly, see EditBFS.judge_variant).
NS_VARIANTS = ["ns", "ns-tuple"]
NS_ATTR = {"announce": "announce", "url-list": "url_list",
           "httpseeds": "httpseeds", "comment": "comment", "source": "source",
           "private": "private"}


def ns_applicable(req, variant):
    """Is the request inside the Namespace route's alphabet?"""
    for f, v in req:
        if f == "private" and v is not True:
            return False        # the flag cannot clear
    if variant == "ns-tuple":
        return any(isinstance(v, list) for _, v in req)
    return True


def namespace_for(path, req, variant):
    from argparse import Namespace
    kw = {a: None for a in NS_ATTR.values()}
    kw["private"] = False
    for f, v in req:
        if isinstance(v, list):
            v = tuple(v) if variant == "ns-tuple" else list(v)
        kw[NS_ATTR[f]] = v
    return Namespace(metafile=path, **kw)


def apply_request(route, path, req, variant=None):
    if route == "lib":
        args = {f: None for f in FIELDS}
        for f, v in req:
            args[f] = list(v) if isinstance(v, list) else v
        with tf.quiet():
            if variant is None:
                tf.edit.edit_torrent(path, args)
                return
            if variant in NS_VARIANTS:
                tf.commands.edit(namespace_for(path, req, variant))
                return
            if variant == "reuse":
                # the host keeps one request dictionary and applies it to
                # several metafiles: here to a scratch copy first, then to
                # the file that is judged
                import shutil
                scratch = path + ".other-metafile"
                shutil.copyfile(path, scratch)
                try:
                    tf.edit.edit_torrent(scratch, args)
                finally:
                    os.remove(scratch)
                tf.edit.edit_torrent(path, args)
                return
            import logging
            lg = logging.getLogger("torrentfile" if variant == "debug"
                                   else None)
            level = lg.level
            lg.setLevel(logging.DEBUG)
            try:
                tf.edit.edit_torrent(path, args)
            finally:
                lg.setLevel(level)
        return
    argv = (["-v"] if variant == "v" else []) + ["edit", path]
    for f, v in req:
        if f == "private":
            argv.append("--private")
        elif isinstance(v, list):
            argv += [CLI_FLAG[f]] + list(v)
        else:
            argv += [CLI_FLAG[f], v]
    tf.execute(argv)


def cli_orders(path, req):
    """All flag orders of a CLI request (<= 3 flags) with the metafile first or
    after a scalar flag (never directly after a list-valued flag)."""
    chunks = []
    for f, v in req:
        if f == "private":
            chunks.append((["--private"], False))
        elif isinstance(v, list):
            chunks.append(([CLI_FLAG[f]] + list(v), True))
        else:
            chunks.append(([CLI_FLAG[f], v], False))
    out = []
    for perm in itertools.permutations(chunks):
        out.append(["edit", path] + [a for c, _ in perm for a in c])
        for pos in range(1, len(perm) + 1):
            if perm[pos - 1][1]:
                continue
            argv = ["edit"]
            for i, (c, _) in enumerate(perm):
                argv += c
                if i + 1 == pos:
                    argv.append(path)
            out.append(argv)
    return out


def expected_after(before, req):
    """Reference edit model on plain decoded dicts (bytes keys)."""
    top = {k: v for k, v in before.items()}
    info = dict(top[b"info"])
    top[b"info"] = info
    masked = set()
    for f, v in req:
        key = f.encode()
        if f in ("comment", "source"):
            if v == "":
                info.pop(key, None)
            else:
                info[key] = v.encode()
        elif f == "private":
            if v == "":
                info.pop(key, None)
            else:
                info[key] = 1
        else:
            if v == "":
                top.pop(key, None)
                if f == "announce":
                    masked.add(b"announce-list")
                continue
            items = v.split() if isinstance(v, str) else list(v)
            items = [x.encode() for x in items]
            if f == "announce":
                top[b"announce"] = items[0]
                top[b"announce-list"] = [items]
            else:
                top[key] = items
    return top, masked


def named_keys(req):
    top, info = set(), set()
    for f, _ in req:
        if f in ("comment", "source", "private"):
            info.add(f.encode())
        else:
            top.add(f.encode())
            if f == "announce":
                top.add(b"announce-list")
    return top, info


def structure_problems(top):
    """C06 second half: the structure the version requires."""
    probs = []
    info = top.get(b"info")
    if not isinstance(info, dict):
        return ["no-info-dict"]
    if not isinstance(info.get(b"name"), bytes):
        probs.append("no-name")
    if not isinstance(info.get(b"piece length"), int):
        probs.append("no-piece-length")
    v2 = b"meta version" in info
    v1 = b"pieces" in info or not v2
    if v1:
        if (b"length" in info) == (b"files" in info):
            probs.append("v1-needs-length-xor-files")
        pc = info.get(b"pieces")
        if not isinstance(pc, bytes) or len(pc) % 20:
            probs.append("v1-pieces-not-20-byte-hashes")
        if b"files" in info:
            try:
                model.v1_entries(info)
            except model.Malformed:
                probs.append("v1-files-malformed")
    if v2:
        if info.get(b"meta version") != 2:
            probs.append("meta-version-not-2")
        try:
            model.tree_leaves(info.get(b"file tree"))
        except model.Malformed:
            probs.append("file-tree-malformed")
        pl = top.get(b"piece layers")
        if not isinstance(pl, dict):
            probs.append("no-top-level-piece-layers")
        else:
            for k, v in pl.items():
                if len(k) != 32 or not isinstance(v, bytes) or len(v) % 32 \
                        or not v:
                    probs.append("piece-layers-entry-malformed")
                    break
    return probs


def canonical_problems(raw):
    try:
        top = bencode.decode(raw, strict=True)
    except bencode.BencodeError as e:
        return ["non-canonical:" + e.reason], None
    if not isinstance(top, dict):
        return ["top-level-not-dict"], None
    return structure_problems(top), top


# ------------------------------------------- process-environment axis (C06)
# A small sub-catalogue of creates and edits, each executed in a child
# interpreter under EVERY member of envrun.ENVS (python -O / PYTHONOPTIMIZE,
# terminal widths, ASCII / POSIX locale, stdout closed / full / a file,
# removed cwd, -W error, debug switch, low recursion limit, few descriptors,
# umasks, no HOME, far time zone, small io buffer).  The child only runs the
# operation; what is judged is the file the PARENT then finds at the path.

ENV_MASK_OPTS = ["announce", "url_list", "httpseeds", "comment+source",
                 "private"]
CLI_OPT_FLAG = {"announce": "-a", "url_list": "--web-seed",
                "httpseeds": "--http-seed"}


def mask_kwargs(mask):
    kw = {}
    for i, o in enumerate(ENV_MASK_OPTS):
        if mask >> i & 1:
            if o == "comment+source":
                kw["comment"], kw["source"] = "c", "s"
            elif o == "private":
                kw["private"] = True
            else:
                kw[o] = list(OPTS_ALL[o])
    return kw


ENV_CREATOR_EXPR = {
    "TorrentFile": "torrent.TorrentFile(",
    "TorrentFileV2": "torrent.TorrentFileV2(",
    "TorrentFileHybrid": "torrent.TorrentFileHybrid(",
    "Assembler2": "torrent.TorrentAssembler(meta_version='2', ",
    "Assembler3": "torrent.TorrentAssembler(meta_version='3', ",
}


def env_ops(family):
    """The operations of one family of the environment axis."""
    ops = []
    if family == "lib-create":
        for c in ENV_CREATOR_EXPR:
            for mask in (0, 31):
                ops.append({"op": "lib-create", "creator": c, "mask": mask,
                            "world": "D3"})
        for c in ("TorrentFile", "Assembler3"):
            ops.append({"op": "lib-create", "creator": c, "mask": 21,
                        "world": "S1"})
            # valid UTF-8 names that an ASCII filesystem encoding cannot
            # decode (they reach the code as surrogate escapes there)
            ops.append({"op": "lib-create", "creator": c, "mask": 0,
                        "world": "D3u"})
    elif family == "cli-create":
        for ver in ("1", "2", "3"):
            ops.append({"op": "cli-create", "version": ver, "mask": 31,
                        "world": "D3"})
        ops.append({"op": "cli-create", "version": "3", "mask": 0,
                    "world": "S1"})
    elif family == "edit":
        ops = [
            {"op": "edit", "route": "lib", "base": ["hy", "bare"],
             "request": [["comment", "c1"]]},
            {"op": "edit", "route": "lib", "base": ["hy", "full"],
             "request": [["announce", "http://u1/a http://u2/a"]]},
            {"op": "edit", "route": "lib", "base": ["v1", "full"],
             "request": [["source", ""]]},
            {"op": "edit", "route": "cli", "base": ["v2", "bare"],
             "request": [["comment", "c2 twö wörds 日"],
                         ["private", True]]},
            {"op": "edit", "route": "cli", "base": ["hy", "full"],
             "request": [["url-list", ["http://w1/", "http://w2/"]]]},
        ]
    return ops


ENV_FAMILIES = ["lib-create", "cli-create", "edit"]


def env_world(op, seed):
    if op["world"] == "D3":
        return base_world(seed)["unsorted"]
    if op["world"] == "S1":
        return {"shape": "S1", "sizes": [2 * P0 + 7], "cids": [0]}
    return {"shape": op["world"], "sizes": [2 * P0 + 1, 7, P0 + 5],
            "cids": [0, 1, 2]}


def env_body(op, root, out):
    """Python source of the operation (run in the child by envrun)."""
    if op["op"] == "lib-create":
        return (
            "from torrentfile import torrent\n"
            f"t = {ENV_CREATOR_EXPR[op['creator']]}path={root!a}, "
            f"piece_length={P0}, outfile={out!a}, progress=0, "
            f"**{mask_kwargs(op['mask'])!a})\n"
            "OBS = 'assembled'\n"
            "t.write()\n"
            "OBS = 'written'\n")
    if op["op"] == "cli-create":
        argv = ["create", root, "-o", out, "--meta-version", op["version"],
                "--piece-length", str(P0)]
        kw = mask_kwargs(op["mask"])
        for k, v in kw.items():
            if k in CLI_OPT_FLAG:
                argv += [CLI_OPT_FLAG[k]] + v
            elif k == "private":
                argv.append("--private")
            else:
                argv += ["--" + k, v]
        return ("from torrentfile.cli import execute\n"
                f"execute({argv!a})\n"
                "OBS = 'returned'\n")
    req = [(f, v) for f, v in op["request"]]
    if op["route"] == "lib":
        args = {f: None for f in FIELDS}
        args.update(dict(req))
        return ("from torrentfile.edit import edit_torrent\n"
                f"edit_torrent({out!a}, {args!a})\n"
                "OBS = 'returned'\n")
    argv = ["edit", out]
    for f, v in req:
        if f == "private":
            argv.append("--private")
        elif isinstance(v, list):
            argv += [CLI_FLAG[f]] + list(v)
        else:
            argv += [CLI_FLAG[f], v]
    return ("from torrentfile.cli import execute\n"
            f"execute({argv!a})\n"
            "OBS = 'returned'\n")


# ------------------------------------------------------------------- checks


class EditBFS:
    """C06(b) / C07."""

    def __init__(self, pid):
        self.id = pid
        self.assumptions = [
            "state = metafile bytes (edit reads nothing but the file and its "
            "arguments; process state is C09's subject and reset per step)",
            "finite value alphabet per field, so the search runs to a fixpoint "
            "(quick: two-field requests only from states of depth <= 1; "
            "thorough: from every state)",
            "initial metafiles: own (bare / every option), foreign canonical "
            "ones with unknown keys including non-UTF-8 byte strings and a "
            "non-UTF-8 key, payloads whose entries are named like the "
            "editable fields, and (C07 only) a well-formed but non-canonical "
            "'legacy' metafile with keys in insertion order; a 'cross' base "
            "carries top-level comment / source / private (not judged when "
            "the request names that field) and info-level announce / "
            "announce-list / url-list / httpseeds (unnamed info keys)",
            "the metafile named through several spellings of its path (relative, "
            "dot segments, through a symlinked directory and back with '..'): "
            "the named file changes and nothing else does",
            "overlap probes: from the base and every depth-1 state (thorough: "
            "every state) each field is also requested with a value derived "
            "from the state itself - (part of) what is already stored under "
            "the field's name in either dictionary: the stored primary "
            "tracker as a one-URL string and list, the first tier as list / "
            "string, stored seed lists whole and first item only, stored "
            "comment / source text, private when it is 1; judged by the same "
            "transition oracle (tracker: announce = first URL and "
            "announce-list = [URLs]); their successors are not expanded",
            "debug-logging probes: every depth-1 transition of every base is "
            "also run with debug logging effective - CLI: global flag -v "
            "before `edit`; library: the `torrentfile` logger at DEBUG, and "
            "the root logger at DEBUG (levels restored afterwards); deeper "
            "states are edited with logging at its default only",
            "C06's creation sweep also writes over an existing, much longer "
            "file; it includes content trees with names that are not valid "
            "UTF-8 (cp1252 bytes, a name cut inside a multi-byte character, "
            "bytes 0xF5-0xFF; as file and as directory names, next to "
            "siblings for which str order and raw-byte order disagree): there "
            "a creator may refuse (raise) - then the output path must be "
            "absent, empty, still hold what it held before, or hold a "
            "canonical metafile - or must write a canonical metafile",
            "a length sweep: edits of a metafile with a long piece string "
            "whose results take every byte length in a window around 8, 16, "
            "32 and 64 KiB",
            "a string for a list field means its whitespace-separated items; "
            "clearing the tracker only requires `announce` to disappear",
            "Namespace probes (library surface): every depth-1 transition of "
            "every base of the library route (thorough: every transition from "
            "the depth-1 states as well) is also driven through "
            "torrentfile.commands.edit called directly with a hand-built "
            "argparse.Namespace (metafile, announce, url_list, httpseeds, "
            "comment, source, private): list fields as a whitespace-separated "
            "string, as a list, as '' (clear), None when unnamed; private is "
            "the parser's flag (True, or False = unnamed; it cannot clear); "
            "judged by the same transition oracle.  Variant `ns-tuple` hands "
            "the list values over as tuples: outside the statement's 'string "
            "or list', so a tuple-valued field may be taken as its items, "
            "left unedited, or refused with the file untouched - everything "
            "else is judged as always",
        ]
        self.rule = (
            "BFS over edit histories: bases (version x option set) x route "
            "(library | CLI); transition = one real edit_torrent / CLI edit "
            "on a copy of the state file; states deduplicated on file bytes; "
            "per transition: span-preserving decode before/after compared "
            "with the reference edit model; plus non-expanding probes: "
            "state-derived overlap values (depth <= 1 quick, every state "
            "thorough) and the depth-1 transitions under effective debug "
            "logging (cli -v | torrentfile logger | root logger at DEBUG) "
            "and through commands.edit(Namespace) with string | list | tuple "
            "| '' | None values")
        if pid == "C06":
            self.assumptions.append(
                "C06 process-environment axis: a sub-catalogue of operations (5 "
                "creator classes x {no option, every option over an existing "
                "longer file} on the directory payload with unsorted pieces "
                "roots, a single-file payload, a payload with non-ASCII names; "
                "CLI create for meta versions 1/2/3; three library and two CLI "
                "edits) x EVERY member of mc.envrun.ENVS (python -O, "
                "PYTHONOPTIMIZE=2, COLUMNS 30/12/200, ASCII filesystem encoding "
                "/ locale, POSIX locale, stdout closed / /dev/full / a file / "
                "ascii-only, removed working directory, -W error, "
                "TORRENTFILE_DEBUG=ON, recursion limit 120, RLIMIT_NOFILE 64, "
                "umask 077 / 000, no HOME, a far time zone, a 512-byte io "
                "buffer), one child interpreter per pair; judged on the file the "
                "parent finds at the path afterwards: it strict-decodes "
                "(canonical + structure).  An operation that refuses (raises, "
                "exits, the child dies) is no violation by itself - C06 speaks "
                "about the metafiles that ARE written - provided the path is then "
                "absent, empty, still holds what it held before, or holds a "
                "canonical metafile; only in the `default` environment a refusal "
                "is reported (as the in-process sweeps do)")
            self.rule += (
                "; plus (operation sub-catalogue) x (every process "
                "environment of mc.envrun.ENVS), each pair in its own child "
                "interpreter, the written file judged by the strict decoder")

    def groups(self, tier, seed):
        gs = []
        for ver in ("v1", "v2", "hy"):
            optsets = ["bare", "full", "foreign", "names", "cross"]
            if self.id == "C07":
                # non-canonical input: only C07 can be judged on it (C06 is
                # about what torrentfile writes from canonical input)
                optsets += ["legacy", "falsy", "nested"]
            for opts in optsets:
                for route in ("lib", "cli"):
                    gs.append({"kind": "bfs", "base": [ver, opts],
                               "route": route, "seed": seed, "tier": tier})
        if self.id == "C06":
            for ver in ("TorrentFile", "TorrentFileV2", "TorrentFileHybrid",
                        "Assembler2", "Assembler3"):
                for order in ("native", "reversed", "sorted"):
                    gs.append({"kind": "create", "creator": ver,
                               "order": order, "seed": seed, "tier": tier})
            # process-environment axis: every member of envrun.ENVS x the
            # sub-catalogue of creates and edits (one child per pair)
            for envname in envrun.ENVS:
                for family in ENV_FAMILIES:
                    gs.append({"kind": "env", "env": envname,
                               "family": family, "seed": seed, "tier": tier})
        if self.id == "C07":
            gs.append({"kind": "cli-orders", "seed": seed, "tier": tier})
            gs.append({"kind": "spellings", "seed": seed, "tier": tier})
        # metafile length sweep: the edited file takes every length in a
        # window around 8 KiB, 16 KiB, 32 KiB and 64 KiB (buffer sizes)
        for target in (8192, 16384, 32768, 65536):
            for ver in ("v1", "hy"):
                gs.append({"kind": "length", "target": target, "ver": ver,
                           "seed": seed, "tier": tier})
        return gs

    # -- oracles
    def judge_transition(self, before_raw, after_raw, req):
        probs = []
        try:
            b = bencode.decode(before_raw, strict=False)
            a = bencode.decode(after_raw, strict=False)
        except bencode.BencodeError as e:
            return [("undecodable-after-edit:" + e.reason, None)]
        if not isinstance(a.get(b"info"), dict):
            return [("no-info-after-edit", None)]
        ntop, ninfo = named_keys(req)
        # unnamed keys: byte-identical value spans.  A top-level key named
        # like an info-level field the request names (a foreign top-level
        # `comment`, say) is not judged: whether "the comment" includes it is
        # not fixed by the statement.  Info-level keys named like top-level
        # fields are ordinary unnamed info keys: an edit naming only trackers
        # or seeds must not change the info dictionary.
        for k in b:
            if k in ntop or k == b"info" or k in ninfo:
                continue
            if k not in a:
                probs.append(("unnamed-top-key-removed", k))
            elif bencode.raw(before_raw, b, k) != bencode.raw(after_raw, a, k):
                probs.append(("unnamed-top-key-changed", k))
        for k in a:
            if k not in b and k not in ntop and k not in ninfo:
                probs.append(("unnamed-top-key-added", k))
        bi, ai = b[b"info"], a[b"info"]
        for k in bi:
            if k in ninfo:
                continue
            if k not in ai:
                probs.append(("unnamed-info-key-removed", k))
            elif bencode.raw(before_raw, bi, k) != bencode.raw(after_raw, ai, k):
                probs.append(("unnamed-info-key-changed", k))
        for k in ai:
            if k not in bi and k not in ninfo:
                probs.append(("unnamed-info-key-added", k))
        # named keys: model value
        want, masked = expected_after(bencode.plain(b), req)
        got = bencode.plain(a)
        for k in ntop:
            if k in masked:
                continue
            if want.get(k) != got.get(k):
                probs.append(("named-top-field-wrong", k))
        for k in ninfo:
            if want[b"info"].get(k) != got[b"info"].get(k):
                probs.append(("named-info-field-wrong", k))
        # info-hash stability
        if not ninfo:
            s, e = b.spans[b"info"]
            s2, e2 = a.spans[b"info"]
            if before_raw[s:e] != after_raw[s2:e2]:
                probs.append(("info-bytes-changed-by-tracker-only-edit", None))
        return model._dedup(probs)

    @staticmethod
    def untouched(path, raw):
        try:
            with open(path, "rb") as f:
                return f.read() == raw
        except OSError:
            return False

    def judge_variant(self, before_raw, after_raw, req, variant):
        """judge_transition, except that in the `ns-tuple` variant a field
        whose value was handed over as a TUPLE may have been taken as the list
        of its items or not taken at all (the statement quantifies over
        "string or list"; the unmodified code ignores a tuple): the result
        must be right for the request with some subset of the tuple-valued
        fields left out.  Everything else - every unnamed key, the info
        bytes, the other named fields - is judged as always."""
        probs = self.judge_transition(before_raw, after_raw, req)
        if variant != "ns-tuple" or not probs:
            return probs
        tup = [i for i, (_, v) in enumerate(req) if isinstance(v, list)]
        for n in range(1, len(tup) + 1):
            for drop in itertools.combinations(tup, n):
                alt = tuple(r for i, r in enumerate(req) if i not in drop)
                if not self.judge_transition(before_raw, after_raw, alt):
                    return []
        return probs

    def run_spellings(self, g):
        """The metafile named through different spellings of its path: the
        named file is the one that changes, nothing else in the sandbox does."""
        res = core.Result()
        seed = g["seed"]
        for ver in ("v1", "hy"):
            for route in ("lib", "cli"):
                for sp in ("abs", "rel", "./rel", "sub/../rel", "link/../rel",
                           "linkdir/rel", "abs-via-link"):
                    sb = world.fresh_dir("c7s_")
                    work = os.path.join(sb, "work")
                    store = os.path.join(sb, "store")
                    os.makedirs(os.path.join(work, "sub"))
                    os.makedirs(os.path.join(store, "inbox"))
                    raw0 = make_base((ver, "full"), seed, sb)
                    bystander = b"d4:infod4:name1:xee"
                    if sp == "link/../rel":
                        # link -> store/inbox ; link/../m.torrent is
                        # store/m.torrent for the OS, work/m.torrent lexically
                        os.symlink(os.path.join(store, "inbox"),
                                   os.path.join(work, "link"))
                        real = os.path.join(store, "m.torrent")
                        arg, cwd = "link/../m.torrent", work
                        world.write_file(os.path.join(work, "m.torrent"),
                                         bystander)
                    elif sp in ("linkdir/rel", "abs-via-link"):
                        os.symlink(store, os.path.join(work, "linkdir"))
                        real = os.path.join(store, "m.torrent")
                        arg = "linkdir/m.torrent" if sp == "linkdir/rel" \
                            else os.path.join(work, "linkdir", "m.torrent")
                        cwd = work
                    else:
                        real = os.path.join(work, "m.torrent")
                        arg = {"abs": real, "rel": "m.torrent",
                               "./rel": "./m.torrent",
                               "sub/../rel": "sub/../m.torrent"}[sp]
                        cwd = work
                    world.write_file(real, raw0)
                    req = (("comment", "spelled"), ("url-list",
                                                    ["http://w9/"]))
                    before = world.snapshot(sb, with_bytes=True)
                    old = os.getcwd()
                    os.chdir(cwd)
                    err = None
                    try:
                        apply_request(route, arg, req)
                    except BaseException as e:  # noqa
                        err = type(e).__name__
                    finally:
                        os.chdir(old)
                    after = world.snapshot(sb, with_bytes=True)
                    res.states += 1
                    res.transitions += 1
                    res.evals += 1
                    res.validated += 1
                    probs = []
                    rel = os.path.relpath(real, sb)
                    changed = sorted(k for k in set(before) | set(after)
                                     if before.get(k) != after.get(k))
                    if err:
                        probs.append("edit-raised:" + err)
                    else:
                        others = [c for c in changed if c != rel]
                        if others:
                            probs.append("other-path-changed")
                        if rel not in changed:
                            probs.append("named-metafile-not-edited")
                        else:
                            probs += [p for p, _ in self.judge_transition(
                                raw0, after[rel][2], req)]
                    res.outcomes["spelling:" + (probs[0] if probs else
                                                "ok")] += 1
                    for p in probs:
                        res.violation(
                            f"C07|{route}|{p}|path-spelling:{sp}",
                            {"kind": "spelling", "ver": ver, "route": route,
                             "sp": sp, "seed": seed}, {"changed": changed})
        res.sample({"kind": "spellings"})
        return res

    def run_length(self, g):
        """Edits whose results take every byte length in a window around a
        power-of-two size (reference-encoded base with a long piece string)."""
        res = core.Result()
        seed, target = g["seed"], g["target"]
        work = world.fresh_dir()
        state_file = os.path.join(work, "m.torrent")
        npieces = max(1, (target - 700) // 20)
        pieces = world.content(seed, 77, npieces * 20)
        info = {b"name": b"big", b"piece length": P0,
                b"length": npieces * P0, b"pieces": pieces}
        meta = {b"info": info, b"announce": b"http://t/a",
                b"created by": b"ref"}
        if g["ver"] == "hy":
            root = world.content(seed, 78, 32)
            layer = world.content(seed, 79, 64)
            info[b"meta version"] = 2
            info[b"file tree"] = {b"big": {b"": {
                b"length": npieces * P0, b"pieces root": root}}}
            info[b"pieces"] = pieces[:max(20, (npieces - 8) * 20)]
            meta[b"piece layers"] = {root: layer}
        raw0 = bencode.encode(meta)
        lengths = set()
        for n in range(0, 900):
            for field in ("comment", "url-list"):
                val = "c" * n if field == "comment" else ["http://w/" + "u" * n]
                req = ((field, val),)
                with open(state_file, "wb") as f:
                    f.write(raw0)
                try:
                    apply_request("lib", state_file, req)
                    with open(state_file, "rb") as f:
                        after = f.read()
                except Exception as e:  # noqa
                    res.violation(f"{self.id}|lib|edit-raised:"
                                  f"{type(e).__name__}|length-sweep",
                                  {"kind": "length", "target": target,
                                   "ver": g["ver"], "n": n, "field": field,
                                   "seed": seed}, str(e)[:100])
                    continue
                res.transitions += 1
                res.evals += 1
                res.validated += 1
                lengths.add(len(after))
                if self.id == "C07":
                    probs = [p for p, _ in self.judge_transition(raw0, after,
                                                                 req)]
                else:
                    probs, _ = canonical_problems(after)
                res.outcomes["ok" if not probs else probs[0]] += 1
                for p in probs:
                    mult = "multiple-of-%d" % target if len(after) % target \
                        == 0 or (len(after) // 2) % target == 0 else "other"
                    res.violation(
                        f"{self.id}|lib|{p}|length-sweep|{mult}",
                        {"kind": "length", "target": target, "ver": g["ver"],
                         "n": n, "field": field, "seed": seed},
                        {"length": len(after)})
        res.states += len(lengths)
        covered = [L for L in (target - 1, target, target + 1)
                   if L in lengths]
        if len(covered) != 3 and not res.nviol:
            raise core.InfraError(
                f"length sweep does not cover {target}+-1: {sorted(lengths)[:3]}"
                f"..{sorted(lengths)[-3:]}")
        res.sample({"kind": "length", "target": target, "ver": g["ver"],
                    "lengths": [min(lengths), max(lengths)]})
        return res

    def run_group(self, g):
        if g["kind"] == "create":
            return self.run_create(g)
        if g["kind"] == "env":
            return self.run_env(g)
        if g["kind"] == "length":
            return self.run_length(g)
        if g["kind"] == "spellings":
            return self.run_spellings(g)
        if g["kind"] == "cli-orders":
            return self.run_cli_orders(g)
        res = core.Result()
        seed, route = g["seed"], g["route"]
        base = tuple(g["base"])
        work = world.fresh_dir()
        raw0 = make_base(base, seed, work)
        thorough = g["tier"] == "thorough"
        # quick: the option-rich bases are explored to depth 2 only (their
        # fixpoint contains the bare base's fixpoint, explored completely)
        depth_cap = 2 if (not thorough and base[1] in ("full", "legacy",
                                                       "names", "falsy",
                                                       "cross",
                                                       "nested")
                          and route == "lib") else None
        reqs1, pairs = requests(route, g["tier"])
        reqs2 = reqs1 + pairs
        state_file = os.path.join(work, "m.torrent")
        seen = {raw0: ()}
        frontier = collections.deque([raw0])
        if self.id == "C06":
            cp, _ = canonical_problems(raw0)
            for p in cp:
                if base[1] != "foreign":
                    res.violation(f"C06|create-base|{base[0]}|{p}",
                                  {"base": list(base), "history": [],
                                   "route": route, "seed": seed}, p)
        while frontier:
            raw = frontier.popleft()
            hist = seen[raw]
            if depth_cap is not None and len(hist) >= depth_cap:
                continue
            reqs = reqs2 if (thorough or len(hist) <= 1) else reqs1
            todo = [(req, None, True) for req in reqs]
            # probes: transitions that are judged like any other, but whose
            # successor is not expanded if nothing else reaches it (they
            # would multiply the state space without adding a new behaviour)
            if thorough or len(hist) <= 1:
                # values equal to (part of) what the state already stores
                ov = [r for r in overlap_requests(raw, route)
                      if r not in reqs]
                todo += [(req, None, False) for req in ov]
                res.extra["overlap_probes"] += len(ov)
            if not hist:
                # the depth-1 transitions of the base once more with debug
                # logging effective (CLI: global flag -v; library: the
                # `torrentfile` logger / the root logger at DEBUG)
                for variant in DEBUG_VARIANTS[route]:
                    todo += [(req, variant, False) for req in reqs]
                    res.extra["debug_logging_probes"] += len(reqs)
            if not hist or (thorough and len(hist) <= 1):
                # ... and through commands.edit called directly with a
                # hand-built Namespace (string / list / tuple / "" / None);
                # thorough: from every depth-1 state as well
                for variant in (NS_VARIANTS if route == "lib" else ()):
                    nsreqs = [r for r in reqs if ns_applicable(r, variant)]
                    todo += [(req, variant, False) for req in nsreqs]
                    res.extra["namespace_probes"] += len(nsreqs)
            for req, variant, expand in todo:
                with open(state_file, "wb") as f:
                    f.write(raw)
                try:
                    apply_request(route, state_file, req, variant)
                    with open(state_file, "rb") as f:
                        after = f.read()
                    err = None
                except Exception as e:  # noqa
                    err = type(e).__name__
                    after = None
                    if variant == "ns-tuple" and self.untouched(state_file,
                                                                raw):
                        # a tuple is outside "string or list": refusing it
                        # and leaving the file alone is fine
                        res.transitions += 1
                        res.evals += 1
                        res.validated += 1
                        res.outcomes["ns-tuple-refused:" + err] += 1
                        continue
                res.transitions += 1
                res.evals += 1
                case = {"base": list(base), "route": route, "seed": seed,
                        "history": [list(map(list, r)) for r in hist],
                        "request": list(map(list, req))}
                rlabel = route
                if variant:
                    case["variant"] = variant
                    rlabel = f"{route}-{variant}"
                fields = "+".join(f for f, _ in req)
                if err:
                    res.violation(f"{self.id}|{rlabel}|edit-raised:{err}|"
                                  f"{base[0]}|{fields}", case, err)
                    res.outcomes["raised"] += 1
                    continue
                res.validated += 1
                if self.id == "C07":
                    probs = self.judge_variant(raw, after, req, variant)
                    for p, d in probs:
                        res.violation(
                            f"C07|{rlabel}|{p}|{base[0]}-{base[1]}|{fields}",
                            case, {"problem": p, "key": d})
                    res.outcomes["ok" if not probs else probs[0][0]] += 1
                else:
                    cp, _ = canonical_problems(after)
                    for p in cp:
                        res.violation(
                            f"C06|{rlabel}-edit|{p}|{base[0]}-{base[1]}",
                            case, p)
                    res.outcomes["ok" if not cp else cp[0]] += 1
                if expand and after not in seen:
                    seen[after] = hist + (req,)
                    frontier.append(after)
        res.states += len(seen)
        res.extra["max_depth"] = max(len(h) for h in seen.values())
        res.extra["fixpoints_reached" if depth_cap is None
                  else "depth_capped_searches"] += 1
        res.sample({"base": list(base), "route": route, "states": len(seen),
                    "deepest_history": [list(map(list, r)) for r in
                                        max(seen.values(), key=len)]})
        return res

    def run_cli_orders(self, g):
        """C07: every order of <= 3 CLI flags gives the same file."""
        res = core.Result()
        seed = g["seed"]
        work = world.fresh_dir()
        raw0 = make_base(("hy", "full"), seed, work)
        state_file = os.path.join(work, "m.torrent")
        single = [((f, v),) for f in FIELDS for v in CLI_VALUES[f][:1]]
        combos = []
        for k in (2, 3):
            for c in itertools.combinations(single, k):
                combos.append(tuple(x[0] for x in c))
        for req in combos:
            outs = {}
            for argv in cli_orders(state_file, req):
                with open(state_file, "wb") as f:
                    f.write(raw0)
                try:
                    tf.execute(argv)
                    with open(state_file, "rb") as f:
                        outs[tuple(argv)] = f.read()
                except BaseException as e:  # noqa (argparse exits)
                    outs[tuple(argv)] = "raised:" + type(e).__name__
                res.transitions += 1
                res.evals += 1
            res.states += 1
            res.validated += len(outs)
            ref = None
            for argv, after in outs.items():
                if isinstance(after, str):
                    probs = [(after, None)]
                else:
                    probs = self.judge_transition(raw0, after, req)
                for p, d in probs:
                    res.violation(
                        f"C07|cli-order|{p}|" + "+".join(f for f, _ in req),
                        {"kind": "cli-order", "argv": list(argv)[2:],
                         "seed": seed, "request": list(map(list, req))},
                        {"problem": p, "key": d})
                res.outcomes["ok" if not probs else probs[0][0]] += 1
        return res

    JUNK = b"d4:junk" + b"x" * 200000 + b"e"

    def left_behind(self, out, mask):
        """After a creator REFUSED (raised): problems of whatever it wrote to
        the output path all the same.  Nothing there, an empty file, or the
        untouched file that was there before, is no metafile written."""
        if not os.path.lexists(out):
            return []
        with open(out, "rb") as f:
            data = f.read()
        if (mask % 2 == 1 or mask >= 16) and data == self.JUNK:
            return []
        if not data:
            # an empty file: no byte of a metafile was written (weakest
            # reading; whether create may leave it is not C06's subject)
            return []
        cp, _ = canonical_problems(data)
        return ["refused-but-wrote:" + p for p in cp]

    def run_create(self, g):
        """C06(a): every creator x every subset of options x listing order."""
        res = core.Result()
        seed = g["seed"]
        raw_names = raw_name_shapes()
        opts = ["announce", "url_list", "httpseeds", "comment+source",
                "private"]
        worlds = base_world(seed)
        for wkey, w in sorted(worlds.items()):
            for sh_w in (w, {"shape": "S1", "sizes": [2 * P0 + 7], "cids": [0]},
                         {"shape": "D3d", "sizes": [2 * P0 + 1, 7, P0 + 5],
                          "cids": [0, 1, 2]},
                         {"shape": "D3num", "sizes": [2 * P0 + 1, 7, P0 + 5],
                          "cids": [0, 1, 2]}) + tuple(
                    # name relations that make orders disagree (per directory
                    # level vs whole path, bytes vs normalised forms)
                    {"shape": sh_, "sizes": [2 * P0 + 1, 7, P0 + 5][
                        :world.nfiles(sh_)], "cids": [0, 1, 2][
                        :world.nfiles(sh_)], "names_only": True}
                    for sh_ in ["D3o", "D3q", "D3b", "D3n", "D2rr", "D3u",
                                "D3p", "D3e"] + raw_names
                    if wkey == sorted(worlds)[0]):
                files = world.files_of(sh_w, seed)
                for mask in range(32):
                    if sh_w.get("names_only") and mask not in (0, 21):
                        continue
                    kw = {}
                    for i, o in enumerate(opts):
                        if mask >> i & 1:
                            if o == "comment+source":
                                kw["comment"] = "c"
                                kw["source"] = "s"
                            elif o == "private":
                                kw["private"] = True
                            else:
                                kw[o] = OPTS_ALL[o]
                    parent = world.fresh_dir()
                    root = world.materialize(files, parent)
                    out = os.path.join(parent, "o.torrent")
                    if mask % 2 == 1 or mask >= 16:
                        # the output path already holds a (much longer) file
                        with open(out, "wb") as f:
                            f.write(self.JUNK)
                    tf.reset_process_state()
                    ctx = seams.nullctx() if g["order"] == "native" else \
                        seams.listing_order(g["order"], under=parent)
                    case = {"kind": "create", "creator": g["creator"],
                            "order": g["order"], "world": sh_w, "mask": mask,
                            "seed": seed}
                    try:
                        with ctx:
                            raw = tf.create(g["creator"], root, out, P0, **kw)
                    except Exception as e:  # noqa
                        if sh_w["shape"] not in RAW_NAME_SHAPES:
                            res.violation(
                                f"C06|create|raised:{type(e).__name__}|"
                                f"{g['creator']}", case, str(e)[:200])
                            continue
                        # names that are not UTF-8: refusing is fine, as long
                        # as no metafile was written (the statement is about
                        # the metafiles that ARE written)
                        res.transitions += 1
                        res.evals += 1
                        res.states += 1
                        res.validated += 1
                        left = self.left_behind(out, mask)
                        res.outcomes["refused:" + type(e).__name__ +
                                     (":nothing-written" if not left else
                                      ":" + left[0])] += 1
                        for p in left:
                            res.violation(
                                f"C06|create|{p}|{g['creator']}|raw-names",
                                case, {"raised": type(e).__name__})
                        continue
                    res.transitions += 1
                    res.evals += 1
                    res.states += 1
                    res.validated += 1
                    cp, _ = canonical_problems(raw)
                    res.outcomes["ok" if not cp else cp[0]] += 1
                    for p in cp:
                        res.violation(
                            f"C06|create|{p}|{g['creator']}|"
                            f"{'single' if sh_w['shape'] == 'S1' else 'dir'}",
                            case, p)
                    res.sample(case)
        return res

    def env_one(self, envname, op, seed):
        """One operation of the environment axis in one environment ->
        (outcome label, problems, detail).  The child only runs the
        operation; the verdict is computed here, on what the path holds
        after the child has gone."""
        sb = world.fresh_dir("c6e_")
        mask = op.get("mask", 0)
        junk = False
        if op["op"] == "edit":
            target = os.path.join(sb, "m.torrent")
            raw0 = make_base(tuple(op["base"]), seed, sb)
            with open(target, "wb") as f:
                f.write(raw0)
            root = None
        else:
            files = world.files_of(env_world(op, seed), seed)
            root = world.materialize(files, sb)
            target = os.path.join(sb, "o.torrent")
            junk = mask % 2 == 1 or mask >= 16
            if junk:
                with open(target, "wb") as f:
                    f.write(self.JUNK)
        rep = envrun.run(envname, env_body(op, root, target))
        if rep["ok"]:
            how = "ok"
        elif rep["report"]:
            how = "refused:" + str(rep["exc"])
        else:
            how = "died:rc=%s" % rep["rc"]
            if envname == "default":
                # the harness cannot run children at all: machinery, not a
                # verdict about the code
                raise core.InfraError(
                    "environment axis: the child of the default environment "
                    "died without reporting: " + (rep.get("err") or "")[-300:])
        detail ={"env": envname, "how": how, "msg": rep.get("msg"),
                  "stderr": (rep.get("err") or "")[-300:]}
        probs = []
        if not os.path.lexists(target):
            wrote = "no-file"
        else:
            with open(target, "rb") as f:
                data = f.read()
            if op["op"] != "edit" and not rep["ok"]:
                # a create that refused (or died): nothing, an empty file or
                # what was there before is "no metafile written"
                probs = self.left_behind(target, mask)
                wrote = "left:" + (probs[0] if probs else (
                    "previous" if junk and data == self.JUNK else
                    "empty" if not data else "canonical"))
            else:
                cp, _ = canonical_problems(data)
                probs = list(cp) if rep["ok"] else [
                    "refused-but-wrote:" + p for p in cp]
                wrote = cp[0] if cp else (
                    "unchanged" if op["op"] == "edit" and data == raw0
                    else "canonical")
        if envname == "default" and not rep["ok"]:
            # the baseline must work: the in-process sweeps treat a create
            # or an edit that raises on these inputs as a violation too
            probs.append("refused-in-default-environment:" + how)
        return how + "/" + wrote, probs, detail

    def run_env(self, g):
        """C06 process-environment axis: one family of operations under one
        member of envrun.ENVS.  Oracle: whatever the path holds afterwards
        strict-decodes (canonical + structure); a refusal (exception, exit,
        death of the child) is fine as long as it left no non-canonical
        file behind."""
        res = core.Result()
        seed, envname = g["seed"], g["env"]
        for op in env_ops(g["family"]):
            label, probs, detail = self.env_one(envname, op, seed)
            res.transitions += 1
            res.evals += 1
            res.states += 1
            res.validated += 1
            res.extra["environment_children"] += 1
            if not label.startswith("ok/"):
                res.extra["environment_refusals"] += 1
            res.outcomes["env:" + label.replace("refused-but-wrote:", "")] += 1
            case = {"kind": "env", "env": envname, "op": op, "seed": seed}
            what = op["op"] + ":" + (op.get("creator") or op.get("version")
                                     or op.get("route"))
            for p in probs:
                res.violation(f"C06|env|{what}|{p}|{envname}", case, detail)
            res.sample(case)
        return res

    def replay(self, case):
        out = []
        seed = case["seed"]
        if case.get("kind") == "env":
            _, probs, detail = self.env_one(case["env"], case["op"], seed)
            return [{"sig": f"C06|env|{p}|{case['env']}", "detail": detail}
                    for p in probs]
        if case.get("kind") == "create":
            files = world.files_of(case["world"], seed)
            parent = world.fresh_dir()
            root = world.materialize(files, parent)
            kw = {}
            opts = ["announce", "url_list", "httpseeds", "comment+source",
                    "private"]
            for i, o in enumerate(opts):
                if case["mask"] >> i & 1:
                    if o == "comment+source":
                        kw["comment"], kw["source"] = "c", "s"
                    elif o == "private":
                        kw["private"] = True
                    else:
                        kw[o] = OPTS_ALL[o]
            ctx = seams.nullctx() if case["order"] == "native" else \
                seams.listing_order(case["order"], under=parent)
            out_path = os.path.join(parent, "o.torrent")
            if case["mask"] % 2 == 1 or case["mask"] >= 16:
                with open(out_path, "wb") as f:
                    f.write(self.JUNK)
            tf.reset_process_state()
            try:
                with ctx:
                    raw = tf.create(case["creator"], root, out_path, P0, **kw)
            except Exception as e:  # noqa
                if case["world"]["shape"] not in RAW_NAME_SHAPES:
                    return [{"sig": f"C06|create|raised:{type(e).__name__}",
                             "detail": str(e)[:200]}]
                return [{"sig": f"C06|create|{p}", "detail": type(e).__name__}
                        for p in self.left_behind(out_path, case["mask"])]
            cp, _ = canonical_problems(raw)
            return [{"sig": f"C06|create|{p}", "detail": p} for p in cp]
        if case.get("kind") == "spelling":
            r = self.run_spellings({"seed": seed, "tier": "quick"})
            return [{"sig": v["sig"], "detail": v["detail"]}
                    for v in r.violations
                    if all(v["case"][k] == case[k]
                           for k in ("ver", "route", "sp"))]
        if case.get("kind") == "length":
            r = self.run_length({"seed": seed, "target": case["target"],
                                 "ver": case["ver"]})
            return [{"sig": v["sig"], "detail": v["detail"]}
                    for v in r.violations
                    if v["case"]["n"] == case["n"]
                    and v["case"]["field"] == case["field"]]
        work = world.fresh_dir()
        state_file = os.path.join(work, "m.torrent")
        if case.get("kind") == "cli-order":
            raw0 = make_base(("hy", "full"), seed, work)
            with open(state_file, "wb") as f:
                f.write(raw0)
            argv = ["edit"] + [state_file if a.endswith("m.torrent") else a
                               for a in case["argv"]]
            if state_file not in argv:
                argv.insert(1, state_file)
            req = tuple((f, v) for f, v in case["request"])
            try:
                tf.execute(argv)
                with open(state_file, "rb") as f:
                    after = f.read()
                probs = self.judge_transition(raw0, after, req)
            except BaseException as e:  # noqa
                probs = [("raised:" + type(e).__name__, None)]
            return [{"sig": f"C07|cli-order|{p}", "detail": d}
                    for p, d in probs]
        route = case["route"]
        raw = make_base(tuple(case["base"]), seed, work)
        hist = [tuple((f, v) for f, v in r) for r in case["history"]]
        with open(state_file, "wb") as f:
            f.write(raw)
        for r in hist:
            apply_request(route, state_file, r)
        with open(state_file, "rb") as f:
            before = f.read()
        if "request" not in case:
            cp, _ = canonical_problems(before)
            return [{"sig": f"C06|base|{p}", "detail": p} for p in cp]
        req = tuple((f, v) for f, v in case["request"])
        try:
            apply_request(route, state_file, req, case.get("variant"))
        except Exception as e:  # noqa
            if case.get("variant") == "ns-tuple" and self.untouched(
                    state_file, before):
                return []
            return [{"sig": f"{self.id}|edit-raised", "detail": repr(e)}]
        with open(state_file, "rb") as f:
            after = f.read()
        rlabel = route + ("-" + case["variant"] if case.get("variant") else "")
        if self.id == "C07":
            for p, d in self.judge_variant(before, after, req,
                                           case.get("variant")):
                out.append({"sig": f"C07|{rlabel}|{p}", "detail": d})
        else:
            cp, _ = canonical_problems(after)
            out = [{"sig": f"C06|{rlabel}-edit|{p}", "detail": p} for p in cp]
        return out


# ---------------------------------------------------------------------- C17


class Unencodable:
    pass


C17_REQUESTS = [
    ("comment", {"comment": "new comment"}),
    ("trackers", {"announce": ["http://n1/a", "http://n2/a"]}),
    ("clear-source", {"source": ""}),
    ("private", {"private": True}),
    ("three", {"comment": "x", "url-list": ["http://w9/"], "source": "zz"}),
    ("unenc-float", {"url-list": ["http://ok/", 1.5]}),
    ("unenc-none", {"httpseeds": ["http://ok/", None]}),
    ("unenc-object", {"comment": Unencodable()}),
    ("unenc-scalar", {"source": 2.5}),
    ("unenc-bool", {"comment": True}),
    ("unenc-bool-in-list", {"url-list": ["http://ok/", False]}),
]


# library surface: the metafile named by a path that is not a str - bytes
# (os.fsencode, what a host gets from os.listdir(b".")) and pathlib.Path.
# pyben.load, which the edit reads with, takes both.
PATH_TYPE_BASES = ("bare-bytespath", "bare-pathlib")


def path_argument(path, variant):
    if variant == "bytespath":
        return os.fsencode(path)
    if variant == "pathlib":
        import pathlib
        return pathlib.Path(path)
    return path


def whole_document(new, raw0):
    """new is a complete bencoded document carrying raw0's piece data."""
    try:
        d_new = bencode.plain(bencode.decode(new, strict=False))
        d_old = bencode.plain(bencode.decode(raw0, strict=False))
    except Exception:  # noqa
        return False
    return all(d_new.get(b"info", {}).get(k) == d_old.get(b"info", {}).get(k)
               for k in (b"pieces", b"file tree", b"name")) and \
        d_new.get(b"piece layers") == d_old.get(b"piece layers")


class EditFaults:
    def __init__(self):
        self.id = "C17"
        self.assumptions = [
            "process death and I/O errors at Python-visible filesystem "
            "operations (open, raw write, fsync, remove, rename/replace, ...); "
            "no power-loss reordering, no fault inside a single os.replace",
            "deviation bound 2: at most two injected faults per execution "
            "(the second one lands in whatever cleanup the first triggered)",
            "raw writes: crash / ENOSPC after k bytes and short writes for "
            "k in {0,1,n/2,n-1} (thorough: additionally every k of every raw "
            "write of up to 4096 bytes, at bound 1)",
            "only the metafile path is judged; temporary siblings are not; "
            "one base has a symbolic link as the metafile path (judged on the "
            "bytes reachable through the path); three more have unusual file "
            "metadata (owned by another uid, mode 0444, a second hard link)",
            "path types (library route): the metafile is also named by a "
            "bytes path (os.fsencode) and by a pathlib.Path, every request "
            "under the same fault exploration and the same oracle; an edit "
            "that refuses such a path (TypeError) and leaves the file alone "
            "satisfies it",
            "seam completeness: an audit hook must find every mutating OS "
            "event of a fault-free run accounted for by the shim (else exit 2)",
        ]
        self.nontrivial_rule = (
            "an execution is non-trivial if at least one fault was injected "
            "(the fault-free run of each (metafile, request) pair is the "
            "trivial baseline); counted = distinct non-trivial fault vectors")
        self.rule = (
            "for each (metafile, request): E2 explores every choice vector "
            "with <= bound injected faults over the filesystem operations the "
            "real edit performs; state = (metafile, request, fault vector); "
            "oracle: metafile path holds exactly the old or the new bytes at "
            "the crash snapshot / after the error")

    def groups(self, tier, seed):
        gs = []
        for ver in ("v1", "v2", "hy"):
            for opts in ("bare", "full", "bare-symlink", "bare-otheruid",
                         "bare-readonly", "bare-hardlink", "bare-name255",
                         "bare-name250", "bare-tmpsibling", "bare-bytespath",
                         "bare-pathlib", "big", "huge"):
                if opts.startswith("bare-") and ver != "hy":
                    continue
                if opts == "bare-otheruid" and os.geteuid() != 0:
                    continue    # needs chown
                if opts in ("big", "huge") and ver != "v1":
                    continue
                for name, _ in C17_REQUESTS:
                    # (the command line always hands the path over as a str)
                    for route in ("lib",) + (("cli",) if not
                                             name.startswith("unenc") and
                                             opts not in PATH_TYPE_BASES
                                             else ()):
                        gs.append({"base": [ver, opts], "req": name,
                                   "route": route, "seed": seed, "tier": tier,
                                   "ks": "sample",
                                   "bound": 2})
                        if tier == "thorough" and route == "lib":
                            # every byte position of every raw write
                            gs.append({"base": [ver, opts], "req": name,
                                       "route": route, "seed": seed,
                                       "tier": tier, "ks": "all", "bound": 1})
        return gs

    def one_run(self, run, raw0, req_name, route, write_ks, symlink=False,
                variant=None):
        work = world.fresh_dir()
        path = os.path.join(work, "m.torrent")
        if variant in ("name255", "name250"):
            # a metafile whose own file name is (nearly) as long as a name
            # can be: no room for a suffix on a sibling's name
            n = int(variant[4:])
            path = os.path.join(work, "a" * (n - 8) + ".torrent")
        if symlink:
            # the metafile path is a symbolic link to the real file
            os.mkdir(os.path.join(work, "store"))
            real = os.path.join(work, "store", "real.torrent")
            with open(real, "wb") as f:
                f.write(raw0)
            os.symlink(os.path.join("store", "real.torrent"), path)
        else:
            with open(path, "wb") as f:
                f.write(raw0)
            # file metadata an implementation might branch on
            if variant == "otheruid":
                os.chown(path, 12345, 12345)
            elif variant == "readonly":
                os.chmod(path, 0o444)
            elif variant == "hardlink":
                os.link(path, os.path.join(work, "second-name.torrent"))
            elif variant == "tmpsibling":
                # the names a careless writer would pick for its temporary
                # file are taken: one by another name of the metafile itself
                os.link(path, path + ".tmp")
                with open(path + ".part", "wb") as f:
                    f.write(b"someone else's data")
        args = {f: None for f in FIELDS}
        args.update(dict(C17_REQUESTS)[req_name])
        args = {k: (list(v) if isinstance(v, list) else v)
                for k, v in args.items()}
        shim = fsshim.FsShim(run, work, focus=path, write_ks=write_ks)
        outcome = "returned"
        with tf.quiet():
            try:
                with shim:
                    if route == "lib":
                        tf.edit.edit_torrent(path_argument(path, variant),
                                             args)
                    else:
                        argv = ["edit", path]
                        for f, v in args.items():
                            if v is None:
                                continue
                            if f == "private":
                                argv.append("--private")
                            elif isinstance(v, list):
                                argv += [CLI_FLAG[f]] + v
                            else:
                                argv += [CLI_FLAG[f], v]
                        tf.cli.execute(argv)
            except fsshim.CrashSignal:
                outcome = "crashed"
            except BaseException as e:  # noqa
                outcome = "raised:" + type(e).__name__
        final = shim.focus_state() if not shim.crashed else shim.crash_snapshot
        return {"outcome": outcome, "final": final, "fault": shim.fault,
                "fault_state": shim.fault_state, "shim": shim}

    def run_group(self, g):
        res = core.Result()
        seed = g["seed"]
        work = world.fresh_dir()
        symlink = g["base"][1].endswith("-symlink")
        variant = g["base"][1].split("-")[1] if "-" in g["base"][1] else None
        raw0 = make_base((g["base"][0], g["base"][1].split("-")[0]), seed,
                         work)
        bound = g.get("bound", 1 if g["tier"] == "quick" else 2)
        write_ks = g.get("ks", "sample")
        ex = e2.Explorer(bound, max_runs=200000)
        new = None
        unenc = g["req"].startswith("unenc")
        first = True
        for run, r in ex.explore(lambda run: self.one_run(
                run, raw0, g["req"], g["route"], write_ks, symlink,
                variant)):
            res.transitions += 1
            res.evals += 1
            res.states += 1
            if run.deviations():
                res.extra["nontrivial"] += 1
            vec = e2.vector(run)
            case = {"base": g["base"], "req": g["req"], "route": g["route"],
                    "seed": seed, "ks": write_ks,
                    "vector": [[c, list(p)] for c, p in
                               zip(run.choices, run.points)]}
            if first:
                first = False
                # fault-free run: defines `new`, and the seams must own it
                miss = r["shim"].unowned_events()
                if miss:
                    raise core.InfraError(
                        f"unowned filesystem mutation: {miss}")
                if r["outcome"] == "returned" and r["final"][0] == "file":
                    new = r["final"][1]
                    # "the complete edited one": a whole bencoded document
                    # that still carries the info dictionary of the original
                    if not whole_document(new, raw0):
                        res.violation(
                            f"C17|{g['route']}|metafile-truncated|returned|"
                            f"none:|{'unencodable' if unenc else 'encodable'}",
                            case, {"fault": None, "outcome": r["outcome"],
                                   "final": ("file", len(new))})
                        new = None
                res.extra["fs_operations_in_fault_free_run"] += len(
                    r["shim"].log)
                res.sample({"request": g["req"], "base": g["base"],
                            "operations": [list(x) for x in r["shim"].log]})
            kind, data = r["final"]
            fault = r["fault"][1] if r["fault"] else "none"
            fkind = fault.split("-after-")[0].split(":")[0]
            if fkind.startswith("short-write"):
                fkind = "short-write"
            fclass = fkind + ":" + (r["fault"][0] if r["fault"] else "")
            prob = None
            if kind != "file":
                prob = "metafile-" + kind
            elif data == raw0:
                pass
            elif new is not None and data == new:
                if r["outcome"].startswith("raised") and r["fault_state"] \
                        and r["fault_state"] != ("file", new) \
                        and not run.deviations() > 1:
                    prob = None  # new in place although the error struck
                    # earlier: acceptable only if it was completed afterwards;
                    # the file is complete, so no loss -> not judged
            else:
                if len(data) == 0:
                    prob = "metafile-empty"
                elif raw0.startswith(data) or (new and new.startswith(data)):
                    prob = "metafile-truncated"
                else:
                    prob = "metafile-neither-old-nor-new"
            if unenc and prob is None and data != raw0:
                prob = "unencodable-request-changed-the-file"
            if unenc and r["outcome"] == "returned" and run.deviations() == 0:
                res.outcomes["unencodable-accepted"] += 1
            res.validated += 1
            res.outcomes[(prob or "ok") + "/" + r["outcome"].split(":")[0]] += 1
            if prob:
                res.violation(
                    f"C17|{g['route']}|{prob}|{r['outcome'].split(':')[0]}|"
                    f"{fclass}|{'unencodable' if unenc else 'encodable'}",
                    case, {"fault": r["fault"], "outcome": r["outcome"],
                           "final": (kind, len(data) if data else 0)})
        if ex.capped:
            res.notes.add("run cap hit in group " + repr(g))
        res.extra["deviation_bound_completed"] = bound
        return res

    def replay(self, case):
        prefix = [(c, (p[0], p[1])) for c, p in case["vector"]]
        work = world.fresh_dir()
        symlink = case["base"][1].endswith("-symlink")
        variant = case["base"][1].split("-")[1] if "-" in case["base"][1] \
            else None
        raw0 = make_base((case["base"][0], case["base"][1].split("-")[0]),
                         case["seed"], work)
        ks = case.get("ks", "sample")
        run0 = e2.Run([])
        r0 = self.one_run(run0, raw0, case["req"], case["route"], ks, symlink,
                          variant)
        new = r0["final"][1] if r0["final"][0] == "file" else None
        if new is not None and not whole_document(new, raw0):
            new = None
        run = e2.Run(prefix)
        r = self.one_run(run, raw0, case["req"], case["route"], ks, symlink,
                         variant)
        kind, data = r["final"]
        if kind != "file":
            return [{"sig": "C17|metafile-" + kind, "detail": r["fault"]}]
        if data == raw0 or (new is not None and data == new and
                            not case["req"].startswith("unenc")):
            return []
        return [{"sig": "C17|metafile-damaged", "detail": r["fault"]}]


def make(pid):
    if pid == "C17":
        return EditFaults()
    return EditBFS(pid)
