"""Creation properties (C01 C02 C03 C10 C15): the process-environment axis and
the library-surface axes.

 env        every creator configuration of the property x progress 0/1/2 x
            library and command line, on a world with a file of more than 100
            blocks, in a child interpreter under every member of envrun.ENVS
 tracker    a host sub-class of each creator whose get_progress_tracker hands
            the hashers the host's own tracker (update returns None / its
            argument / a running total / 0 / raises)
 callback   a host callback registered with set_callback (creator class or
            hasher class level) that returns, or lets a StopIteration / a
            ValueError escape at the k-th call, every k
 interleave two hashers alive at once in one thread: every schedule of the
            next() calls of two iterators, and every placement of the next()
            calls of one iterator inside the progress updates of a creator /
            hasher (re-entrance through the host's tracker)

Common oracle: a metafile that results is judged by the property's ordinary
reference oracle; an operation that refuses (raises, exits) without leaving a
metafile is not a violation -- the statements say what a created metafile
contains, not that creation succeeds in a hostile process -- except in the
`default` environment / with the neutral form, where the ordinary catalogue
already demands success.
"""
import itertools
import os

from mc import core, e1, envcreate, envrun, tf, world
from mc.ref import bep

REAL_B = e1.REAL_B
MiB = 1 << 20

CLASSES = {
    "TorrentFile": ("TorrentFile", {}, "Hasher"),
    "TorrentFileV2": ("TorrentFileV2", {}, "HasherV2"),
    "TorrentFileHybrid": ("TorrentFileHybrid", {}, "HasherHybrid"),
    "Assembler2": ("TorrentAssembler", {"meta_version": "2"}, "FileHasher"),
    "Assembler3": ("TorrentAssembler", {"meta_version": "3"}, "FileHasher"),
}
HASHER_CLASSES = ("Hasher", "HasherV2", "HasherHybrid", "FileHasher")
C10_CONFIG = [("Assembler2", "Assembler2", {}, "v2"),
              ("TorrentFileV2", "TorrentFileV2", {}, "v2"),
              ("Assembler3", "Assembler3", {}, "hy"),
              ("TorrentFileHybrid", "TorrentFileHybrid", {}, "hy")]
C10_PAIRS = [("Assembler2", "TorrentFileV2", "v2-creators-disagree"),
             ("Assembler3", "TorrentFileHybrid", "hybrid-creators-disagree")]


def config_of(pid):
    from mc.checks import create
    return create.CONFIG[pid] if pid != "C10" else C10_CONFIG


def safe_judge(oracle, raw, tree, P, name):
    from mc.checks import create
    try:
        return create.judge(oracle, raw, tree, P, REAL_B, name)
    except bep.OracleError:
        raise
    except Exception as e:  # noqa  (a metafile the reference cannot even read)
        return [("metafile-unreadable-for-the-reference:" + type(e).__name__,
                 str(e)[:200])]


def safe_canon(raw):
    from mc.checks import create
    try:
        return create.canon_info(raw)
    except Exception as e:  # noqa
        return ("uncanonical", type(e).__name__, raw)


def reset_callbacks():
    for n in HASHER_CLASSES:
        cls = getattr(tf.hasher, n)
        if "cb" in vars(cls):
            delattr(cls, "cb")


def creator_class(creator):
    cname, kw, hname = CLASSES[creator]
    return getattr(tf.torrent, cname), dict(kw), getattr(tf.hasher, hname)


def hosted(base, tracker):
    """What a host program does to get its own progress object used."""
    class Hosted(base):
        def get_progress_tracker(self, total, message):
            return tracker
    Hosted.__name__ = "Hosted" + base.__name__
    return Hosted


def mat(w, seed, tag):
    files = world.files_of(w, seed)
    parent = world.fresh_dir(tag)
    path = world.materialize(files, parent, shape=w["shape"])
    return dict(files), parent, path


# ---------------------------------------------------------------------------
# environment axis

ENV_BIG = 160 * REAL_B + 7          # > 100 blocks: the progress display's
#                                     percentage does not move on every block
ENV_WORLDS = [("D3", [ENV_BIG, 5, 3 * REAL_B + 1]), ("S1", [ENV_BIG])]
ENV_PS = [32768, 1 << 22]           # files above / all files within a piece
ENV_PS_THOROUGH = [32768, 65536, 1 << 20, 1 << 22]


def env_ps(g):
    return ENV_PS if g.get("tier", "quick") == "quick" else ENV_PS_THOROUGH


def env_groups(pid, tier, seed):
    return [{"kind": "env", "env": name, "seed": seed}
            for name in envrun.ENVS]


def run_env(check, g):
    from mc.checks import create
    pid, seed, envname = check.id, g["seed"], g["env"]
    res = core.Result()
    ops, metas = [], {}
    worlds = {}
    for sh, sizes in ENV_WORLDS:
        w = {"scale": "R", "B": REAL_B, "P": None, "shape": sh,
             "sizes": sizes}
        worlds[sh] = (w,) + mat(w, seed, "env_")
    for sh, (w, tree, parent, path) in worlds.items():
        for P in env_ps(g):
            for pr in (0, 1, 2):
                for label, creator, kw, oracle in config_of(pid):
                    oid = f"{sh}/{P}/{pr}/{label}"
                    of = os.path.join(parent, oid.replace("/", "_") + ".t")
                    ops.append(envcreate.lib_op(oid, creator, path, of, P,
                                                pr, kw))
                    metas[oid] = dict(label=label, oracle=oracle, sh=sh, P=P,
                                      progress=pr, creator=creator)
                if pid in create.CLI_FLAGS:
                    oid = f"{sh}/{P}/{pr}/cli"
                    of = os.path.join(parent, oid.replace("/", "_") + ".t")
                    argv = ["create", {"hex": envcreate.hexpath(path)}, "-o",
                            {"hex": envcreate.hexpath(of)}, "--prog", str(pr),
                            "--piece-length", str(P)] + create.CLI_FLAGS[pid]
                    ops.append(envcreate.cli_op(oid, argv, of))
                    metas[oid] = dict(label="cli",
                                      oracle=create.CONFIG[pid][0][3], sh=sh,
                                      P=P, progress=pr, creator="cli")
                if pid == "C10":
                    files = [os.path.join(path, "a"), os.path.join(path, "e")] \
                        if sh != "S1" else []
                    for i, fp in enumerate(files):
                        oid = f"{sh}/{P}/{pr}/hashers{i}"
                        ops.append(envcreate.hashers_op(oid, fp, P, pr))
                        metas[oid] = dict(label="hashers", sh=sh, P=P,
                                          progress=pr)
    recs, rep = envcreate.run_ops(envname, ops)
    res.states += 1
    res.extra["env_children"] += 1
    if envname != "default":
        res.extra["nontrivial"] += 1
    if not rep["report"]:
        res.outcomes[f"env:{envname}/child-did-not-report"] += 1
        if envname == "default":
            raise core.InfraError("the default-environment child did not "
                                  "report: " + str(rep.get("err"))[-300:])

    def viol(oid, label, prob, detail):
        m = metas[oid]
        w = worlds[m["sh"]][0]
        res.violation(
            f"{pid}|{label}|{prob}|{e1.world_class(w)}|env:{envname}|"
            f"progress={m['progress']}",
            {"kind": "env", "env": envname, "seed": seed, "op": oid},
            {"op": oid, "problem": prob, "detail": detail,
             "outcome": (recs.get(oid) or {}).get("outcome"),
             "msg": (recs.get(oid) or {}).get("msg")})

    delivered = {}
    for op in ops:
        oid = op["id"]
        m = metas[oid]
        r = recs.get(oid)
        res.transitions += 1
        res.evals += 1
        if r is None:
            res.outcomes[f"env:{envname}/not-reached"] += 1
            continue
        if m["label"] == "hashers":
            res.transitions += 3
            judge_env_hashers(res, viol, oid, r["hashers"], envname)
            continue
        w, tree, parent, path = worlds[m["sh"]]
        raw = r.get("raw")
        outcome = r["outcome"].split(":")[0]
        probs = []
        if raw is not None:
            res.validated += 1
            if pid == "C10":
                delivered[oid] = safe_canon(raw)
            else:
                probs = safe_judge(m["oracle"], raw, tree, m["P"],
                                   world.ROOT_NAME)
        elif envname == "default":
            probs = [("refused-in-the-default-environment", r.get("msg"))]
        res.outcomes[f"env:{envname}/{outcome}/"
                     f"{'no-metafile' if raw is None else 'ok' if not probs else probs[0][0]}"] += 1
        for p, d in probs:
            viol(oid, m["label"], p, d)
    if pid == "C10":
        for sh in worlds:
            for P in env_ps(g):
                for pr in (0, 1, 2):
                    for a, b, prob in C10_PAIRS:
                        ka, kb = (f"{sh}/{P}/{pr}/{a}", f"{sh}/{P}/{pr}/{b}")
                        if ka in delivered and kb in delivered:
                            res.validated += 1
                            if delivered[ka] != delivered[kb]:
                                viol(ka, a + "~" + b, prob, None)
                        elif ka in delivered or kb in delivered:
                            res.outcomes[f"env:{envname}/one-of-a-pair-"
                                         "refused"] += 1
    res.sample({"kind": "env", "env": envname, "ops": len(ops),
                "reported": rep["report"], "rc": rep["rc"]})
    return res


def judge_env_hashers(res, viol, oid, hs, envname):
    got = {n: r for n, r in hs.items() if r.get("outcome") == "returned"}
    res.outcomes[f"env:{envname}/hashers-delivered={len(got)}"] += 1
    res.validated += 1
    desc = {n: (repr(r.get("root")), repr(r.get("layer")))
            for n, r in got.items()}
    if len(set(desc.values())) > 1:
        viol(oid, "hashers", "hashers-disagree-on-root-or-layer",
             {n: d[0][:20] for n, d in desc.items()})
    if "HasherHybrid" in got and "FileHasher1" in got:
        a, b = got["HasherHybrid"], got["FileHasher1"]
        if (a.get("pieces"), a.get("padding")) != (b.get("pieces"),
                                                   b.get("padding")):
            viol(oid, "hashers",
                 "hybrid-hashers-disagree-on-pieces-or-padding", None)
    for n in ("FileHasher0", "FileHasher1"):
        if n not in got:
            continue
        it = got[n].get("iter") or []
        lay = got[n].get("layer")
        if n == "FileHasher0":
            joined = b"".join(x for x in it if isinstance(x, bytes))
        else:
            joined = b"".join(x[0] for x in it)
            if b"".join(x[1] for x in it) != b"".join(got[n]["pieces"]):
                viol(oid, "hashers",
                     "filehasher-hybrid-iterator-differs-from-pieces", None)
        if joined != (lay if isinstance(lay, bytes) else b""):
            viol(oid, "hashers", "filehasher-iterator-differs-from-layer",
                 None)


# ---------------------------------------------------------------------------
# host tracker

TRACKERS = ["none", "same", "total", "zero", "raise@1", "raise@3"]


class HostTracker:
    """The only thing the hashers have ever needed of a tracker is
    update(count); what it returns was never specified."""

    def __init__(self, kind):
        self.kind = kind
        self.calls = 0
        self.done = 0

    BUDGET = 2000     # the worlds of this axis need < 40 calls; code that
    #                   takes the returned number for the read count may
    #                   never see an end of file

    def update(self, n):
        self.calls += 1
        self.done += n
        if self.calls > self.BUDGET:
            raise RuntimeError("host tracker: call budget exceeded")
        if self.kind.startswith("raise@") and \
                self.calls == int(self.kind[6:]):
            raise RuntimeError("host tracker failed")
        return {"none": None, "same": n, "total": self.done,
                "zero": 0}.get(self.kind, n)


TRACKER_P = 32768
TRACKER_ALPHA = [5, 16385, 40000]


TRACKER_ALPHA_THOROUGH = [0, 5, 16385, 32768, 40000, 70000]


def tracker_worlds(tier="quick"):
    alpha = TRACKER_ALPHA if tier == "quick" else TRACKER_ALPHA_THOROUGH
    ws = [{"scale": "R", "B": REAL_B, "P": TRACKER_P, "shape": "S1",
           "sizes": [s]} for s in alpha if s]
    for v in itertools.product(alpha, repeat=3):
        ws.append({"scale": "R", "B": REAL_B, "P": TRACKER_P, "shape": "D3",
                   "sizes": list(v)})
    return ws


def tracker_groups(pid, tier, seed):
    return [{"kind": "tracker", "label": c[0], "seed": seed}
            for c in config_of(pid)] if pid != "C10" else \
        [{"kind": "tracker", "label": a + "~" + b, "seed": seed}
         for a, b, _ in C10_PAIRS]


def hosted_create(creator, kw, path, of, P, progress, tracker):
    """One create through a host sub-class; returns (outcome, raw|None)."""
    base, ckw, _h = creator_class(creator)
    cls = hosted(base, tracker) if tracker is not None else base
    tf.reset_process_state()
    outcome = "returned"
    try:
        with tf.quiet():
            t = cls(path=path, piece_length=P, outfile=of, progress=progress,
                    **dict(ckw, **kw))
            t.write()
    except bep.OracleError:
        raise
    except BaseException as e:  # noqa
        outcome = "raised:" + type(e).__name__
    raw = None
    if os.path.isfile(of):
        with open(of, "rb") as f:
            raw = f.read()
        os.remove(of)
    return outcome, raw


def run_tracker(check, g, only=None):
    pid, seed = check.id, g["seed"]
    res = core.Result()
    cfg = {c[0]: c for c in config_of(pid)}
    labels = g["label"].split("~")
    n = 0
    for w in tracker_worlds(g.get("tier", "quick")):
        tree, parent, path = mat(w, seed, "trk_")
        res.states += 1
        for kind in TRACKERS:
            for pr in (0, 1, 2):
                key = f"{w['shape']}:{w['sizes']}:{kind}:{pr}"
                if only is not None and key != only:
                    continue
                got = {}
                for lab in labels:
                    _l, creator, kw, oracle = cfg[lab]
                    of = os.path.join(parent, f"o{n}.torrent")
                    n += 1
                    outcome, raw = hosted_create(creator, kw, path, of,
                                                 w["P"], pr,
                                                 HostTracker(kind))
                    res.transitions += 1
                    res.evals += 1
                    res.extra["nontrivial"] += 1
                    probs = []
                    if raw is not None:
                        res.validated += 1
                        if pid == "C10":
                            got[lab] = safe_canon(raw)
                        else:
                            probs = safe_judge(oracle, raw, tree, w["P"],
                                               world.ROOT_NAME)
                    elif kind == "same" and outcome == "returned":
                        probs = [("returned-without-metafile", None)]
                    res.outcomes[
                        f"tracker:{kind}/{outcome.split(':')[0]}/"
                        f"{'no-metafile' if raw is None else 'ok' if not probs else probs[0][0]}"] += 1
                    for p, d in probs:
                        res.violation(
                            f"{pid}|{lab}|{p}|{e1.world_class(w)}|"
                            f"host-tracker:{kind}|progress={pr}",
                            {"kind": "tracker", "label": g["label"],
                             "seed": seed, "key": key},
                            {"world": w, "outcome": outcome, "detail": d})
                if pid == "C10" and len(got) == 2 and \
                        got[labels[0]] != got[labels[1]]:
                    prob = [p for a, b, p in C10_PAIRS if a == labels[0]][0]
                    res.violation(
                        f"{pid}|{g['label']}|{prob}|{e1.world_class(w)}|"
                        f"host-tracker:{kind}|progress={pr}",
                        {"kind": "tracker", "label": g["label"],
                         "seed": seed, "key": key}, {"world": w})
    res.sample({"kind": "tracker", "label": g["label"],
                "trackers": TRACKERS})
    return res


# ---------------------------------------------------------------------------
# host callback

CB_P = 32768
CB_WORLDS = [("D3", [5, 40000, 16385]), ("D3", [40000, 5, 70000]),
             ("D2n", [32768, 32769]), ("S1", [3 * CB_P + 5]),
             ("S1", [3 * CB_P]), ("S1", [5])]


CLI_LABEL = {"C01": "TorrentFile", "C15": "TorrentFile+align",
             "C02": "Assembler2", "C03": "Assembler3"}


class Host:
    """A host object whose bound method is the registered callback."""

    def __init__(self, behaviour):
        self.kind, self.at = behaviour
        self.calls = 0

    def on_hash(self, *args):
        self.calls += 1
        if self.calls == self.at:
            if self.kind == "stop":
                # e.g. next() on the host's own exhausted tick iterator
                raise StopIteration
            if self.kind == "value":
                raise ValueError("host callback failed")
        return None


def callback_groups(pid, tier, seed):
    return [{"kind": "callback", "label": lab, "seed": seed}
            for lab in ([c[0] for c in config_of(pid)] if pid != "C10"
                        else [a + "~" + b for a, b, _ in C10_PAIRS])]


def run_callback(check, g, only=None):
    from mc.checks import create
    pid, seed = check.id, g["seed"]
    res = core.Result()
    cfg = {c[0]: c for c in config_of(pid)}
    labels = g["label"].split("~")
    n = 0
    for sh, sizes in CB_WORLDS:
        w = {"scale": "R", "B": REAL_B, "P": CB_P, "shape": sh,
             "sizes": sizes}
        tree, parent, path = mat(w, seed, "cb_")
        res.states += 1
        K = sum(-(-s // CB_P) for s in sizes) + 1
        behaviours = [("none", 0)] + [("stop", k) for k in range(1, K + 1)] \
            + [("value", 1), ("value", K - 1)]
        for beh in behaviours:
            for reg in ("creator", "hasher"):
                for route in ("lib", "cli"):
                    key = f"{sh}:{sizes}:{beh[0]}@{beh[1]}:{reg}:{route}"
                    if only is not None and key != only:
                        continue
                    got = {}
                    for lab in labels:
                        _l, creator, kw, oracle = cfg[lab]
                        base, ckw, hcls = creator_class(creator)
                        if route == "cli" and lab != CLI_LABEL.get(pid):
                            # the registration is class level: a later
                            # command-line create in the same process uses
                            # the same hasher class (TorrentFile /
                            # TorrentAssembler only)
                            continue
                        host = Host(beh)
                        of = os.path.join(parent, f"o{n}.torrent")
                        n += 1
                        tf.reset_process_state()
                        outcome = "returned"
                        try:
                            if reg == "creator":
                                base.set_callback(host.on_hash)
                            else:
                                hcls.set_callback(host.on_hash)
                            if route == "lib":
                                with tf.quiet():
                                    t = base(path=path, piece_length=CB_P,
                                             outfile=of, progress=0,
                                             **dict(ckw, **kw))
                                    t.write()
                            else:
                                tf.execute(["create", path, "-o", of,
                                            "--prog", "0", "--piece-length",
                                            str(CB_P)] +
                                           create.CLI_FLAGS[pid])
                        except bep.OracleError:
                            raise
                        except BaseException as e:  # noqa
                            outcome = "raised:" + type(e).__name__
                        finally:
                            reset_callbacks()
                        raw = None
                        if os.path.isfile(of):
                            with open(of, "rb") as f:
                                raw = f.read()
                            os.remove(of)
                        res.transitions += 1
                        res.evals += 1
                        res.extra["nontrivial"] += 1
                        res.extra["max_callback_calls"] = max(
                            res.extra.get("max_callback_calls", 0),
                            host.calls)
                        probs = []
                        if raw is not None:
                            res.validated += 1
                            if pid == "C10":
                                got[lab] = safe_canon(raw)
                            else:
                                probs = safe_judge(oracle, raw, tree, CB_P,
                                                   world.ROOT_NAME)
                        elif beh[0] == "none":
                            probs = [("no-metafile-with-a-returning-callback:"
                                      + outcome, None)]
                        res.outcomes[
                            f"callback:{beh[0]}/{outcome.split(':')[0]}/"
                            f"{'no-metafile' if raw is None else 'ok' if not probs else probs[0][0]}"] += 1
                        for p, d in probs:
                            res.violation(
                                f"{pid}|{lab}|{p}|{e1.world_class(w)}|"
                                f"host-callback:{beh[0]}|{reg}|{route}",
                                {"kind": "callback", "label": g["label"],
                                 "seed": seed, "key": key},
                                {"world": w, "behaviour": list(beh),
                                 "calls": host.calls, "outcome": outcome,
                                 "detail": d})
                    if pid == "C10" and len(got) == 2 and \
                            got[labels[0]] != got[labels[1]]:
                        prob = [p for a, b, p in C10_PAIRS
                                if a == labels[0]][0]
                        res.violation(
                            f"{pid}|{g['label']}|{prob}|{e1.world_class(w)}|"
                            f"host-callback:{beh[0]}|{reg}|{route}",
                            {"kind": "callback", "label": g["label"],
                             "seed": seed, "key": key},
                            {"world": w, "behaviour": list(beh)})
    res.sample({"kind": "callback", "label": g["label"],
                "worlds": len(CB_WORLDS)})
    return res


# ---------------------------------------------------------------------------
# interleaving

IL_P = 32768
END = "END"


def il_payloads(seed, tier="quick"):
    """Two different payloads: (tree of two files, single file) x (A, B)."""
    P, B = IL_P, REAL_B
    out = {}
    sizes = (("A", [P + 5, 2 * P], 2 * P + 5), ("B", [P + 1, 7], P + B + 1))
    if tier != "quick":
        sizes = (("A", [2 * P + 5, 3 * P], 4 * P + 5),
                 ("B", [2 * P + 1, 7], 2 * P + B + 1))
    for side, tsizes, fsize in sizes:
        parent = world.fresh_dir("il_")
        files = [(("a",), world.content(seed, f"il{side}0", tsizes[0])),
                 (("d", "b"), world.content(seed, f"il{side}1", tsizes[1]))]
        tpath = world.materialize(files, parent)
        fpath = os.path.join(parent, "single.bin")
        world.write_file(fpath, world.content(seed, f"il{side}2", fsize))
        out[side] = {"tree": dict(files), "tpath": tpath,
                     "paths": [os.path.join(tpath, "a"),
                               os.path.join(tpath, "d", "b")],
                     "fpath": fpath}
    return out


def make_iter(kind, pl, side):
    """A fresh hasher iterator of the given kind over payload `side`."""
    H = tf.hasher
    p = pl[side]
    if kind in ("Hasher", "Hasher+align"):
        return H.Hasher(list(p["paths"]), IL_P, align=kind.endswith("align"),
                        progress=0, progress_bar=H.Hasher.NoProg())
    return H.FileHasher(p["fpath"], IL_P, progress=0,
                        hybrid=kind.endswith("1"),
                        progress_bar=H.FileHasher.NoProg())


def step(it, out):
    """One next() call; END recorded once, later calls are not made."""
    if out and out[-1] == END:
        return
    try:
        x = next(it)
        out.append(tuple(bytes(y) for y in x) if isinstance(x, tuple)
                   else bytes(x))
    except StopIteration:
        out.append(END)


def attrs(it):
    if isinstance(it, tf.hasher.Hasher):
        return None
    return (repr(it.root), repr(it.piece_layer),
            repr([bytes(x) for x in getattr(it, "pieces", [])]),
            repr(getattr(it, "padding_file", None)))


def drain(it):
    out = []
    while not out or out[-1] != END:
        step(it, out)
    return out


ITER_KINDS = {"C01": ["Hasher"], "C15": ["Hasher+align"],
              "C02": ["FileHasher0"], "C03": ["FileHasher1"],
              "C10": ["FileHasher0", "FileHasher1", "Hasher"]}


def interleave_groups(pid, tier, seed):
    gs = [{"kind": "interleave", "mode": "next", "what": k, "seed": seed}
          for k in ITER_KINDS[pid]]
    for c in config_of(pid):
        for pr in (0, 2):
            gs.append({"kind": "interleave", "mode": "reenter",
                       "what": c[0], "progress": pr, "seed": seed})
    if pid == "C10":
        for h in ("HasherV2", "HasherHybrid", "FileHasher0", "FileHasher1"):
            for pr in (0, 2):
                gs.append({"kind": "interleave", "mode": "reenter-hasher",
                           "what": h, "progress": pr, "seed": seed})
    return gs


def run_interleave_next(check, g, only=None):
    """Every schedule of the next() calls of two live iterators."""
    pid, seed, kind = check.id, g["seed"], g["what"]
    res = core.Result()
    pl = il_payloads(seed, g.get("tier", "quick"))
    tf.reset_process_state()
    with tf.quiet():
        ia, ib = make_iter(kind, pl, "A"), make_iter(kind, pl, "B")
        seq = {"A": drain(ia), "B": drain(ib)}
        seq_attr = {"A": attrs(ia), "B": attrs(ib)}
    na, nb = len(seq["A"]), len(seq["B"])
    res.states += 1
    for pos in itertools.combinations(range(na + nb), na):
        sched = "".join("A" if i in pos else "B" for i in range(na + nb))
        if only is not None and sched != only:
            continue
        with tf.quiet():
            its = {"A": make_iter(kind, pl, "A"),
                   "B": make_iter(kind, pl, "B")}
            outs = {"A": [], "B": []}
            err = None
            try:
                for s in sched:
                    step(its[s], outs[s])
            except Exception as e:  # noqa
                err = type(e).__name__ + ":" + str(e)[:100]
        res.transitions += na + nb
        res.evals += 1
        res.validated += 1
        res.extra["interleaving_schedules"] += 1
        res.extra["nontrivial"] += 1
        prob = None
        if err:
            prob = "interleaved-next-raised"
        elif outs != seq:
            prob = "interleaved-outputs-differ-from-sequential"
        elif {s: attrs(its[s]) for s in its} != seq_attr:
            prob = "interleaved-attributes-differ-from-sequential"
        res.outcomes[f"interleave-next:{kind}/{prob or 'ok'}"] += 1
        if prob:
            res.violation(
                f"{pid}|{kind}|{prob}|two-iterators|interleaved-next",
                {"kind": "interleave", "mode": "next", "what": kind,
                 "seed": seed, "key": sched},
                {"schedule": sched, "error": err,
                 "differs": [s for s in "AB" if outs[s] != seq[s]]})
    res.sample({"kind": "interleave", "mode": "next", "what": kind,
                "calls": [na, nb]})
    return res


class Reenter:
    """A host tracker that, inside chosen update() calls, advances another
    hasher of the same process (a second torrent the host is building)."""

    def __init__(self, schedule, advance):
        self.schedule = schedule      # slot indexes, with multiplicity
        self.advance = advance
        self.calls = 0

    def update(self, n):
        i = self.calls
        self.calls += 1
        for _ in range(self.schedule.count(i)):
            self.advance()
        return n


def reenter_schedules(m, kb):
    """Placements of kb calls of B into the m update slots of A plus the
    slot `after A` (= m), with repetition."""
    return list(itertools.combinations_with_replacement(range(m + 1), kb))


def b_kind_for(pid, what):
    if pid in ("C01", "C15"):
        return "Hasher+align" if pid == "C15" else "Hasher"
    if what in ("Assembler3", "TorrentFileHybrid", "HasherHybrid",
                "FileHasher1") or what.startswith(("Assembler3",
                                                   "TorrentFileHybrid")):
        return "FileHasher1"
    return "FileHasher0"


def run_interleave_reenter(check, g, only=None):
    pid, seed, what, pr = check.id, g["seed"], g["what"], g["progress"]
    res = core.Result()
    pl = il_payloads(seed, g.get("tier", "quick"))
    hasher_level = g["mode"] == "reenter-hasher"
    bkind = b_kind_for(pid, what)
    with tf.quiet():
        seq_b = drain(make_iter(bkind, pl, "B"))
    kb = len(seq_b)
    if not hasher_level:
        cfg = {c[0]: c for c in config_of(pid)}
        _l, creator, kw, oracle = cfg[what]
    of_dir = world.fresh_dir("ilo_")
    counter = itertools.count()

    def run_a(tracker):
        """Run A with the tracker; returns observation of A."""
        H = tf.hasher
        if hasher_level:
            fp = pl["A"]["fpath"]
            try:
                if what == "HasherV2":
                    h = H.HasherV2(fp, IL_P, progress=pr,
                                   progress_bar=tracker)
                    it = None
                elif what == "HasherHybrid":
                    h = H.HasherHybrid(fp, IL_P, progress=pr,
                                       progress_bar=tracker)
                    it = None
                else:
                    h = H.FileHasher(fp, IL_P, progress=pr,
                                     hybrid=what.endswith("1"),
                                     progress_bar=tracker)
                    it = drain(h)
                return ("returned", it, repr(h.root), repr(h.piece_layer),
                        repr(getattr(h, "pieces", None)),
                        repr(getattr(h, "padding_file", None)))
            except Exception as e:  # noqa
                return ("raised:" + type(e).__name__,)
        of = os.path.join(of_dir, f"o{next(counter)}.torrent")
        return hosted_create(creator, kw, pl["A"]["tpath"], of, IL_P, pr,
                             tracker)

    # how many update slots does A have, and what does A give on its own
    probe = Reenter((), lambda: None)
    with tf.quiet():
        base_obs = run_a(probe)
    m = probe.calls
    res.states += 1
    res.extra["max_reentrance_slots"] = m
    scheds = reenter_schedules(m, kb) if m else []
    for sched in scheds:
        key = ",".join(map(str, sched))
        if only is not None and key != only:
            continue
        with tf.quiet():
            itb = make_iter(bkind, pl, "B")
            out_b = []
            tr = Reenter(sched, lambda: step(itb, out_b))
            obs = run_a(tr)
            for _ in range(sched.count(m)):
                step(itb, out_b)
            # whatever B has left is taken afterwards
            while not out_b or out_b[-1] != END:
                step(itb, out_b)
        res.transitions += 1 + kb
        res.evals += 1
        res.validated += 1
        res.extra["interleaving_schedules"] += 1
        res.extra["nontrivial"] += 1
        probs = []
        if out_b != seq_b:
            probs.append(("inner-hasher-outputs-differ-from-sequential",
                          None))
        if hasher_level or pid == "C10":
            cmp_obs = obs if hasher_level else (
                obs[0], safe_canon(obs[1]) if obs[1] is not None else None)
            cmp_base = base_obs if hasher_level else (
                base_obs[0], safe_canon(base_obs[1])
                if base_obs[1] is not None else None)
            if cmp_obs[0] == "returned" and cmp_obs != cmp_base:
                probs.append(("outer-result-differs-from-undisturbed", None))
        else:
            outcome, raw = obs
            if raw is not None:
                for p, d in safe_judge(oracle, raw, pl["A"]["tree"], IL_P,
                                       world.ROOT_NAME):
                    probs.append((p, d))
        res.outcomes[f"reenter:{what}/{obs[0].split(':')[0]}/"
                     f"{'ok' if not probs else probs[0][0]}"] += 1
        for p, d in probs:
            res.violation(
                f"{pid}|{what}|{p}|second-hasher-advanced-inside-progress-"
                f"update|progress={pr}",
                {"kind": "interleave", "mode": g["mode"], "what": what,
                 "progress": pr, "seed": seed, "key": key},
                {"schedule": list(sched), "slots": m, "inner": bkind,
                 "outcome": obs[0], "detail": d})
    res.sample({"kind": "interleave", "mode": g["mode"], "what": what,
                "progress": pr, "slots": m, "inner_calls": kb,
                "schedules": len(scheds)})
    return res


def run_interleave(check, g, only=None):
    if g["mode"] == "next":
        return run_interleave_next(check, g, only)
    return run_interleave_reenter(check, g, only)


# ---------------------------------------------------------------------------

RUNNERS = {"env": run_env, "tracker": run_tracker, "callback": run_callback,
           "interleave": run_interleave}


def run(check, g):
    res = RUNNERS[g["kind"]](check, g)
    for v in res.violations:
        v["case"]["tier"] = g.get("tier", "quick")
    return res


def groups(pid, tier, seed):
    gs = (env_groups(pid, tier, seed) + tracker_groups(pid, tier, seed) +
          callback_groups(pid, tier, seed) +
          interleave_groups(pid, tier, seed))
    for g in gs:
        g["tier"] = tier
    return gs


def replay(check, case):
    kind = case["kind"]
    g = {k: v for k, v in case.items() if k not in ("key", "op")}
    if kind == "env":
        r = run_env(check, g)
        vs = [v for v in r.violations if v["case"].get("op") == case["op"]]
    else:
        r = RUNNERS[kind](check, g, only=case["key"])
        vs = [v for v in r.violations if v["case"].get("key") == case["key"]]
    return [{"sig": v["sig"], "detail": v["detail"]} for v in vs]
