#!/bin/sh
# tools/try_patch.sh <patch.diff> [--suite] <ID>...
# Applies a seeded change to a scratch worktree of /repo (never to /repo itself),
# optionally runs the unedited suite there, runs the named quick checks against it
# (VERIF_REPO), prints one verdict line per check and removes the worktree.
patch="$1"; shift
suite=0; tier=quick
while true; do case "$1" in --suite) suite=1; shift;; --thorough) tier=thorough; shift;; *) break;; esac; done
HERE="$(cd "$(dirname "$0")/.." && pwd)"
wt=$(mktemp -d /dev/shm/mt_XXXXXX); rmdir "$wt"
git -C /repo worktree add -q --detach "$wt" HEAD || exit 2
out=$(mktemp -d /dev/shm/mtout_XXXXXX)
trap 'git -C /repo worktree remove --force "$wt" 2>/dev/null; rm -rf "$out"' EXIT
git -C "$wt" apply "$patch" 2>/dev/null || git -C "$wt" apply --3way "$patch" || { echo "PATCH DOES NOT APPLY: $patch"; exit 2; }
if [ $suite = 1 ]; then "$HERE/tools/suite.sh" "$wt" | tail -c 80; fi
for id in "$@"; do
  VERIF_REPO="$wt" VERIF_OUT="$out" "$HERE/bin/check" "$id" --tier $tier > "$out/$id.log" 2>&1; rc=$?
  nv=$(grep -c '^VIOLATION' "$out/$id.log")
  echo "$(basename $(dirname $patch))/$(basename $patch) $id exit=$rc violations_lines=$nv $(grep -m2 'sig:' "$out/$id.log" | tr '\n' ' ' | cut -c1-230)"
  [ $rc = 2 ] && tail -5 "$out/$id.log"
done
