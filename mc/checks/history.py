"""C09 — results never depend on what the process did earlier.  Engine E3:
breadth-first search over operation histories; every history is re-executed
from scratch in a fresh fork of a pristine process image; the last operation's
observable is compared with the same operation executed by another pristine
fork (and, for cross-validation, by a brand-new interpreter) on a copy of the
same filesystem state."""
import datetime as _dt
import hashlib
import json
import os
import shutil
import subprocess
import sys

from mc import core, world
from mc.ref import bencode

P0 = 16384
BIG = 16_384_001
A_SIZES = [40000, 140000]   # 3 / 9 pieces at 16 KiB, 2 / 5 at 32 KiB

FS_OPS = ["add:n", "del:n", "del:b", "grow:a", "shrink:a", "rewrite:b",
          "biggrow:a", "resize:solo",
          # environment actions that make a walk of the content root FAIL below
          # its top level (a dangling symbolic link in top/d) / undo that, and
          # one that turns the single-file root into a directory and back
          "add:link", "del:link", "morph:solo"]
WIDE_FS_OPS = ("add:link", "del:link", "morph:solo")
LIB_OPS = ["create:1", "create:2", "create:3", "create:auto", "create:cliq",
           "create:1:solo", "create:2:solo", "create:3:solo",
           "create:2:p32", "create:3:p32",
           "edit", "recheck", "rebuild", "magnet"]


class FakeDatetime:
    @classmethod
    def now(cls):
        return _dt.datetime.fromtimestamp(1_000_000_000)

    @staticmethod
    def timestamp(d):
        return _dt.datetime.timestamp(d)


# ------------------------------------------------------------ sandbox model

def initial_model():
    return {"a": ("size", 0), "b": 0, "n": False, "b_present": True,
            "solo": 0, "link": False, "solo_dir": False}


def fs_enabled(m, wide=False):
    """The filesystem actions enabled in model state m.  The BFS of the quick
    tier uses the narrow alphabet; the link / morph actions are members of the
    pattern histories and of the thorough tier's `wide` groups."""
    ops = ["resize:solo"]
    if wide:
        ops.append("del:link" if m.get("link") else "add:link")
        ops.append("morph:solo")
    ops.append("add:n" if not m["n"] else "del:n")
    if m["b_present"]:
        ops += ["del:b", "rewrite:b"]
    if m["a"] == ("size", 0):
        ops += ["grow:a", "biggrow:a"]
    elif m["a"] == ("size", 1):
        ops += ["shrink:a", "biggrow:a"]
    else:
        ops += ["shrink:a"]
    return ops


def fs_apply_model(m, op):
    m = dict(m)
    if op == "add:n":
        m["n"] = True
    elif op == "del:n":
        m["n"] = False
    elif op == "del:b":
        m["b_present"] = False
    elif op == "rewrite:b":
        m["b"] = 1 - m["b"]
    elif op == "grow:a":
        m["a"] = ("size", 1)
    elif op == "shrink:a":
        m["a"] = ("size", 0)
    elif op == "biggrow:a":
        m["a"] = ("big", 0)
    elif op == "resize:solo":
        m["solo"] = 1 - m.get("solo", 0)
    elif op == "add:link":
        m["link"] = True
    elif op == "del:link":
        m["link"] = False
    elif op == "morph:solo":
        m["solo_dir"] = not m.get("solo_dir", False)
    return m


# a second directory root, never mutated; its entries are created in an order
# that is neither the sorted one nor its reverse, so that the native listing
# order is unsorted whichever way the scratch filesystem enumerates
OTHER_FILES = [("m", 40, 100), ("k", 41, P0 + 5), ("s/q", 42, 50),
               ("b", 43, 10)]


def write_model(S, m, seed):
    """(Re)write the payload files so that they match the model m."""
    root = os.path.join(S, "top")
    os.makedirs(os.path.join(root, "d"), exist_ok=True)
    pa = os.path.join(root, "a")
    kind, idx = m["a"]
    want = A_SIZES[idx] if kind == "size" else BIG
    if not os.path.exists(pa) or os.path.getsize(pa) != want:
        with open(pa, "wb") as f:
            if kind == "size":
                f.write(world.content(seed, 0, want))
            else:
                f.write(world.content(seed, 0, 140000))
                f.seek(want - 1)
                f.write(b"\x01")
    pb = os.path.join(root, "d", "b")
    if m["b_present"]:
        data = world.content(seed, 10 + m["b"], P0 + 1)
        cur = None
        if os.path.exists(pb):
            with open(pb, "rb") as f:
                cur = f.read()
        if cur != data:
            with open(pb, "wb") as f:
                f.write(data)
    elif os.path.exists(pb):
        os.remove(pb)
    solo = os.path.join(S, "solo")
    want_solo = [20000, 2 * P0 + 1][m.get("solo", 0)]
    if m.get("solo_dir"):
        # the "single-file root" is a directory now: solo/x carries the bytes
        if os.path.isfile(solo):
            os.remove(solo)
        if not os.path.isdir(solo):
            os.mkdir(solo)
            with open(os.path.join(solo, "y"), "wb") as f:
                f.write(world.content(seed, 31, 100))
        solo = os.path.join(solo, "x")
    elif os.path.isdir(solo):
        shutil.rmtree(solo)
    if not os.path.exists(solo) or os.path.getsize(solo) != want_solo:
        with open(solo, "wb") as f:
            f.write(world.content(seed, 30, want_solo))
    other = os.path.join(S, "other")
    if not os.path.isdir(other):
        os.mkdir(other)
        for rel, cid, n in OTHER_FILES:
            os.makedirs(os.path.dirname(os.path.join(other, rel)),
                        exist_ok=True)
            with open(os.path.join(other, rel), "wb") as f:
                f.write(world.content(seed, cid, n))
    pl = os.path.join(root, "d", "zz")
    if m.get("link") and not os.path.lexists(pl):
        os.symlink("gone", pl)          # dangling: top/d/gone never exists
    elif not m.get("link") and os.path.lexists(pl):
        os.remove(pl)
    pn = os.path.join(root, "n")
    if m["n"] and not os.path.exists(pn):
        with open(pn, "wb") as f:
            f.write(world.content(seed, 20, 100))
    elif not m["n"] and os.path.exists(pn):
        os.remove(pn)


def canon_sandbox(S):
    out = []
    for dp, dn, fn in os.walk(S):
        dn.sort()
        for n in sorted(fn):
            p = os.path.join(dp, n)
            rel = os.path.relpath(p, S)
            if os.path.islink(p):
                out.append((rel, -1, "link:" + os.readlink(p)))
                continue
            h = hashlib.sha256()
            with open(p, "rb") as f:
                while True:
                    chunk = f.read(1 << 20)
                    if not chunk:
                        break
                    h.update(chunk)
            out.append((rel, os.path.getsize(p), h.hexdigest()[:16]))
    return tuple(out)


# --------------------------------------------------- process-state scanning

_BASELINE = None
_SHARED = {}


def _scan(S):
    """Every piece of module- or class-level state of torrentfile.* that is not
    a plain function/class defined there, plus a few process globals."""
    import logging
    import types
    from mc import tf
    out = {}

    def rep(v):
        if isinstance(v, (types.FunctionType, types.BuiltinFunctionType)):
            return "func:" + getattr(v, "__qualname__", "?")
        if isinstance(v, types.MethodType):
            return "method:" + getattr(v, "__qualname__", "?")
        if isinstance(v, (classmethod, staticmethod)):
            return type(v).__name__ + ":" + rep(v.__func__)
        if isinstance(v, (type, types.ModuleType)):
            return "ref:" + getattr(v, "__name__", "?")
        if isinstance(v, tf.utils.Memo):
            items = sorted((str(k).replace(S, "<SB>"),
                            repr(val).replace(S, "<SB>"))
                           for k, val in v.cache.items())
            # every other attribute of the memo object (e.g. `counter`) is
            # process state as well
            rest = sorted((k, repr(x)) for k, x in vars(v).items()
                          if k not in ("cache", "func"))
            return "memo:" + repr(items) + repr(rest)
        r = repr(v)
        if S:
            r = r.replace(S, "<SB>")
        if " at 0x" in r:
            r = type(v).__name__ + "-instance"
        return r

    for mname, mod in sorted(tf.M.items()):
        for k, v in sorted(vars(mod).items()):
            if k.startswith("__"):
                continue
            if isinstance(v, type) and v.__module__ == mod.__name__:
                for ck, cv in sorted(vars(v).items()):
                    if ck.startswith("__"):
                        continue
                    out[f"{mname}.{k}.{ck}"] = rep(cv)
            else:
                out[f"{mname}.{k}"] = rep(v)
    out["sys.stdout"] = type(sys.stdout).__name__
    out["sys.stderr"] = type(sys.stderr).__name__
    out["root-handlers"] = str(len(logging.getLogger().handlers))
    out["root-level"] = str(logging.getLogger().level)
    out["TORRENTFILE_DEBUG"] = os.environ.get("TORRENTFILE_DEBUG", "")
    out["cwd-in-sandbox"] = str(os.getcwd().startswith(S)) if S else ""
    return out


def proc_state(S):
    cur = _scan(S)
    base = _BASELINE or {}
    diff = tuple(sorted((k, v) for k, v in cur.items() if base.get(k) != v))
    return diff


# ------------------------------------------------------------- library ops

def _prepare_process():
    from mc import tf
    tf.torrent.datetime = FakeDatetime
    sys.stdout = tf.NULL
    sys.stderr = tf.NULL
    os.environ["TORRENTFILE_DEBUG"] = "OFF"


def strip_date(raw):
    try:
        m = bencode.plain(bencode.decode(raw, strict=False))
        m.pop(b"creation date", None)
        return bencode.encode(m)
    except Exception:  # noqa
        return raw


_KEPT = {}


def root_of(op, S):
    tail = op.split(":")[2:]
    for name in ("solo", "other", "missing"):
        if name in tail:
            return os.path.join(S, name)
    return os.path.join(S, "top")


def creator_class(tf, k):
    return {"1": tf.torrent.TorrentFile, "1a": tf.torrent.TorrentFile,
            "2c": tf.torrent.TorrentFileV2, "3c": tf.torrent.TorrentFileHybrid,
            "2": tf.torrent.TorrentAssembler,
            "3": tf.torrent.TorrentAssembler}[k]


def creator_extra(k):
    return {"1a": {"align": True}, "2": {"meta_version": "2"},
            "3": {"meta_version": "3"}}.get(k, {})


def cfg_lines(kind, mpath):
    lines = ["[config]", f"out = {mpath}", "piece-length = 14"]
    if kind == "full":
        lines += ["comment = from config", "source = cfg",
                  "private = true", "meta-version = 3",
                  "announce =", "    http://c/a", "    http://c/b"]
    elif kind in ("alias", "alias+a"):
        lines += ["comment = via alias keys",
                  "tracker =", "    http://c/t1", "    http://c/t2",
                  "web-seed =", "    http://c/w1", "    http://c/w2",
                  "http-seed =", "    http://c/h1"]
    elif kind == "both":
        lines += ["announce =", "    http://c/a",
                  "tracker =", "    http://c/t1"]
    elif kind != "bare":
        raise ValueError(kind)
    return lines


def cli_create_argv(kind, root, mpath):
    if kind == "plain":
        return ["create", root, "--prog", "0", "-o", mpath]
    if kind == "lists":
        return ["create", root, "--prog", "0", "-o", mpath,
                "--tracker", "http://t/x", "http://t/y",
                "--web-seed", "http://w/1", "http://w/2",
                "--http-seed", "http://h/1", "--comment", "c",
                "--source", "s", "--private", "--meta-version", "2"]
    if kind == "short":
        return ["create", "-a", "http://t/s", "-p", "-s", "src", "-c", "cm",
                "--progress", "0", "--out", mpath, root]
    raise ValueError(kind)


FOREIGN = ("ann", "ann2", "none", "tiers", "ws")


def write_foreign(S, kind):
    """A metafile written by the reference encoder (never by torrentfile):
    `ann` / `ann2` carry `announce` and no `announce-list`, `none` no tracker
    at all, `tiers` announce + announce-list + url-list, `ws` (hybrid) nothing
    but a string url-list."""
    from mc.ref import model
    path = os.path.join(S, f"f_{kind}.torrent")
    if os.path.exists(path):
        return path
    data = world.content(0, 50 + FOREIGN.index(kind), P0 + 7)
    name = f"f {kind}.bin"
    if kind == "ws":
        meta = model.ref_hybrid(name, {(): data}, P0, 16384)
        meta[b"url-list"] = b"http://mirror.example/f ws.bin"
    else:
        meta = model.ref_v1(name, {(): data}, P0)
    if kind == "ann":
        meta[b"announce"] = b"http://solo.example/announce?key=a&b=c%20d"
    elif kind == "ann2":
        meta[b"announce"] = b"udp://other.example:1337/announce"
        meta[b"comment"] = b"second single tracker"
    elif kind == "tiers":
        meta[b"announce"] = b"http://one.example/announce"
        meta[b"announce-list"] = [[b"http://one.example/announce",
                                   b"udp://two.example:6969/a b&c=d"],
                                  [b"http://three.example/x"]]
        meta[b"url-list"] = [b"http://seed.example/dir name/"]
    with open(path, "wb") as f:
        f.write(bencode.encode(meta))
    return path


def do_lib_op(op, S):
    from mc import tf
    root = os.path.join(S, "top")
    mpath = os.path.join(S, "m.torrent")
    try:
        if op.startswith(("rebuild:rel:", "create:relp:")):
            # relative arguments from a working directory of its own: the
            # same spelling means another place after a chdir
            wname = op.split(":")[2]
            wd = os.path.join(S, wname)
            old = os.getcwd()
            os.makedirs(wd)
            try:
                if op.startswith("create:relp:"):
                    shutil.copytree(root, os.path.join(wd, "p"))
                    if wname != "w1":
                        with open(os.path.join(wd, "p", "extra"), "wb") as f:
                            f.write(b"extra")
                    os.chdir(wd)
                    tf.torrent.TorrentFile(path="p", piece_length=P0,
                                           outfile="o.torrent",
                                           progress=0).write()
                    with open("o.torrent", "rb") as f:
                        return ("metafile", strip_date(f.read()))
                os.chdir(wd)
                os.mkdir("out")
                n = tf.rebuild.Assembler(
                    [os.path.relpath(mpath, wd)],
                    [os.path.relpath(root, wd)], "out").assemble_torrents()
                return ("rebuilt", n, canon_sandbox(os.path.join(wd, "out")))
            finally:
                os.chdir(old)
                shutil.rmtree(wd, ignore_errors=True)
        if op.startswith("create:"):
            v = op.split(":")[1]
            root = root_of(op, S)
            plen = 2 * P0 if op.endswith(":p32") else P0
            if v == "cfg":
                # create through a configuration file: `full` names comment,
                # source, private and trackers, `bare` nothing but the output;
                # `alias` names its list options with the other spellings the
                # program accepts (tracker / web-seed / http-seed), `both`
                # carries announce and tracker, `alias+a` adds -a on the
                # command line
                kind = op.split(":")[2]
                cfg = os.path.join(S, f"cfg_{kind.replace('+', '_')}.ini")
                with open(cfg, "w") as f:
                    f.write("\n".join(cfg_lines(kind, mpath)) + "\n")
                argv = ["create", "--config", "--config-path", cfg,
                        "--prog", "0", root]
                if kind == "alias+a":
                    argv[1:1] = ["-a", "http://t/z"]
                try:
                    tf.cli.execute(argv)
                finally:
                    os.remove(cfg)
                with open(mpath, "rb") as f:
                    return ("metafile", strip_date(f.read()))
            if v == "cli":
                # plain command-line creates through torrentfile.cli.execute:
                # `plain` gives no option beyond the output, `lists` gives
                # every list-valued and every info option (long spellings,
                # --tracker), `short` the short / alternative spellings
                tf.cli.execute(cli_create_argv(op.split(":")[2], root, mpath))
                with open(mpath, "rb") as f:
                    return ("metafile", strip_date(f.read()))
            if v == "listarg":
                # library use: the content path travels at the end of a
                # tracker list that the caller keeps and reuses
                shared = _SHARED.setdefault(S, ["http://t/a", "http://t/b",
                                                root])
                tf.torrent.TorrentFile(announce=shared, piece_length=P0,
                                       outfile=mpath, progress=0).write()
                with open(mpath, "rb") as f:
                    return ("metafile", strip_date(f.read()))
            if v == "1":
                tf.torrent.TorrentFile(path=root, piece_length=plen,
                                       outfile=mpath, progress=0).write()
            elif v in ("2c", "3c", "1a"):
                # the class creators used by library callers / interactive mode
                creator_class(tf, v)(path=root, piece_length=plen,
                                      outfile=mpath, progress=0,
                                      **creator_extra(v)).write()
            elif v in "23":
                tf.torrent.TorrentAssembler(path=root, piece_length=plen,
                                            outfile=mpath, progress=0,
                                            meta_version=v).write()
            elif v == "auto":
                tf.torrent.TorrentFile(path=root, outfile=mpath,
                                       progress=0).write()
            else:
                tf.cli.execute(["-q", "create", root, "-o", mpath,
                                "--meta-version", "3"])
            with open(mpath, "rb") as f:
                return ("metafile", strip_date(f.read()))
        if op.startswith("keep:"):
            # a caller that keeps its creator object: the first `keep` of a
            # (creator, root, piece length) constructs the object and writes;
            # every later one calls assemble() and write() on the SAME
            # object.  A fresh process has no object, so the oracle is a new
            # creator object on the filesystem state of the moment
            k = op.split(":")[1]
            plen = 2 * P0 if op.endswith(":p32") else P0
            obj = _KEPT.get((S, op))
            if obj is None:
                obj = creator_class(tf, k)(
                    path=root_of(op, S), piece_length=plen, outfile=mpath,
                    progress=0, **creator_extra(k))
                _KEPT[(S, op)] = obj
            else:
                obj.assemble()
            obj.write()
            with open(mpath, "rb") as f:
                return ("metafile", strip_date(f.read()))
        if op.startswith("edit:cli:"):
            argv = {"lists": ["--tracker", "http://e/1", "http://e/2",
                              "--web-seed", "http://ew/1", "--http-seed",
                              "http://eh/1", "--source", "esrc", "--private"],
                    "comment": ["--comment", "second"]}[op.split(":")[2]]
            tf.cli.execute(["edit", mpath] + argv)
            with open(mpath, "rb") as f:
                return ("metafile", strip_date(f.read()))
        if op.startswith("magnet:"):
            # magnet:[cli:](own | f:<kind>): the own slot or a foreign
            # metafile written by the reference encoder, library or CLI route
            parts = op.split(":")[1:]
            cli = parts[0] == "cli"
            if cli:
                parts = parts[1:]
            target = mpath if parts[0] == "own" else write_foreign(S, parts[1])
            if cli:
                return ("magnet", tf.cli.execute(["magnet", target]))
            return ("magnet", tf.commands.magnet(target))
        if op == "edit":
            tf.edit.edit_torrent(mpath, {"comment": "edited", "source": None,
                                         "private": None, "announce":
                                         ["http://t/a"], "url-list": None,
                                         "httpseeds": None})
            with open(mpath, "rb") as f:
                return ("metafile", strip_date(f.read()))
        if op == "recheck":
            return ("percent", float(tf.recheck.Checker(mpath,
                                                        S).results()))
        if op == "magnet":
            return ("magnet", tf.commands.magnet(mpath))
        if op == "rebuild":
            dest = os.path.join(S, "dest")
            os.mkdir(dest)
            try:
                n = tf.rebuild.Assembler([mpath], [root, os.path.join(
                    S, "solo")], dest).assemble_torrents()
                snap = canon_sandbox(dest)
            finally:
                shutil.rmtree(dest, ignore_errors=True)
            return ("rebuilt", n, snap)
    except BaseException as e:  # noqa
        return ("raised", type(e).__name__)
    raise ValueError(op)


def handler(req):
    """Runs in a fresh fork of the pristine zygote."""
    _prepare_process()
    kind = req["kind"]
    if kind == "single":
        return do_lib_op(req["op"], req["sandbox"])
    S, seed = req["sandbox"], req["seed"]
    m = initial_model()
    os.makedirs(S)
    write_model(S, m, seed)
    ops = req["ops"]
    last = None
    for k, op in enumerate(ops):
        is_last = k + 1 == len(ops)
        if op in FS_OPS:
            m = fs_apply_model(m, op)
            write_model(S, m, seed)
            continue
        snap = canon = None
        if is_last:
            snap = S + ".before"
            shutil.copytree(S, snap, symlinks=True)
            canon = canon_sandbox(S)
        obs = do_lib_op(op, S)
        if is_last:
            last = {"op": op, "snap": snap, "canon": canon, "obs": obs}
    return {"last": last, "model": m,
            "has_m": os.path.exists(os.path.join(S, "m.torrent")),
            "state": (canon_sandbox(S), proc_state(S))}


def init_baseline():
    global _BASELINE
    _prepare_process_baseline()


def _prepare_process_baseline():
    global _BASELINE
    from mc import tf  # noqa
    so, se = sys.stdout, sys.stderr
    old_dt = tf.torrent.datetime
    _prepare_process()
    _BASELINE = _scan("")
    sys.stdout, sys.stderr = so, se
    tf.torrent.datetime = old_dt


def subprocess_oracle(op, S):
    env = dict(os.environ, PYTHONPATH=core.VERIF, PYTHONHASHSEED="0")
    r = subprocess.run([sys.executable, "-m", "mc.checks.history", "--single",
                        op, S], capture_output=True, env=env, timeout=300)
    if r.returncode != 0:
        raise core.InfraError("subprocess oracle failed: " +
                              r.stderr.decode()[-500:])
    return core.unjson(json.loads(r.stdout.decode().splitlines()[-1]))


class HistoryCheck:
    id = "C09"

    def __init__(self):
        self.zyg = None
        self.assumptions = [
            "alphabet: create v1/v2/hybrid (explicit P) of a directory root "
            "and of a single-file root, create v1 (automatic P), CLI -q "
            "create, edit, recheck, rebuild, magnet, and the "
            "filesystem actions add / delete / grow / shrink / rewrite a file "
            "and one growth step to 16 384 001 bytes (sparse) that moves the "
            "automatic piece length",
            "a directory root with files from {a, d/b, n} (mutated by the "
            "filesystem actions), a fixed single-file root, one metafile slot",
            "plus every history of the shape create; X; change; [create;] X "
            "for X in recheck / rebuild / magnet / edit (depth 4-5), and "
            "creates at a second piece length (32 KiB)",
            "pattern family `failed`: failing operations are ordinary members "
            "of histories (observable = exception type, compared with the "
            "fresh process like any other): a dangling symbolic link in top/d "
            "(actions add:link / del:link) makes the content walk of every "
            "create fail below its top level (recheck and rebuild run with "
            "the link in place as well), a missing root or a missing "
            "metafile makes an operation fail at the top; each failure is "
            "followed by successful creates of the same root (link removed, "
            "with two and with three entries) and of a second, never mutated "
            "directory root `other` whose four entries are created in an "
            "order that is neither sorted nor reverse-sorted",
            "pattern family `cli`: creates through torrentfile.cli.execute "
            "in ordered pairs (quick: first member sets options or is -q; "
            "thorough: all pairs) and selected triples over {config file "
            "full / bare / with the alias keys tracker, web-seed, http-seed / "
            "with announce and tracker / alias keys plus -a on the command "
            "line; command line without options / with every list-valued "
            "option (--tracker, --web-seed, --http-seed) / short spellings; "
            "-q}, so that a list-valued option given by flag or by either "
            "config key in one operation is absent in the next; CLI edit with "
            "and without list-valued options",
            "pattern family `magnet`: five foreign metafile slots written by "
            "the reference encoder (announce only x2, tracker-less, announce "
            "+ announce-list + url-list, hybrid with a string url-list) next "
            "to the own slot; magnet by library call and by CLI on every "
            "ordered pair of slots (same route; mixed routes from the "
            "announce-carrying slots), own slot before / after a foreign one",
            "pattern family `keep`: the caller keeps its creator object (all "
            "six creators, explicit piece length): construct + write, payload "
            "change (add / delete / rewrite / grow / shrink, single-file "
            "resize, single-file root replaced by a directory and back: "
            "action morph:solo), then assemble() + write() on the SAME "
            "object; the fresh-process oracle is a NEW creator object on the "
            "changed payload.  Kept objects with an automatic piece length "
            "are not enumerated (the piece length chosen at construction is "
            "read as an argument of the object)",
            "the quick BFS alphabet does not contain add:link / del:link / "
            "morph:solo (pattern histories only); thorough adds BFS groups "
            "below the prefixes add:link and morph:solo with these actions "
            "enabled",
            "depth 3 (quick) / 5 (thorough); states deduplicated on "
            "(canonical sandbox, canonical process state) where the process "
            "state is an introspective scan of every module- and class-level "
            "attribute of torrentfile.* (Memo cache contents and every other "
            "attribute of the memo object included), "
            "sys.stdout/stderr types, root logger, TORRENTFILE_DEBUG",
            "each history is re-executed from the empty history in a fresh "
            "fork of a pristine process image; oracle = the same operation in "
            "another pristine fork on a copy of the same filesystem state; the "
            "first query of every operation kind per group is cross-validated "
            "against a brand-new interpreter (subprocess), including one "
            "operation of each pattern family and one failing create",
            "the clock is owned (fixed) so that metafiles are comparable",
        ]
        self.rule = (
            "explicit-state BFS over operation histories; state = canonical "
            "(sandbox, process state); transition = executing one more "
            "operation of the real code at the end of a history; differential "
            "oracle against a pristine process on the same filesystem state; "
            "enumerated pattern families (failed operations, CLI / config "
            "option spellings, several metafile slots, kept creator objects) "
            "beyond the BFS depth, each history judged at its last operation")

    def worker_init(self):
        from mc import zygote
        _prepare_process_baseline()
        self.zyg = zygote.Zygote(handler)

    def groups(self, tier, seed):
        depth = 3 if tier == "quick" else 5
        m0 = initial_model()
        firsts = fs_enabled(m0) + [op for op in LIB_OPS if op.startswith(
            "create")]
        gs = []
        rh = self.repeat_histories()
        for i in range(0, len(rh), 24):
            gs.append({"kind": "repeat", "histories": rh[i:i + 24],
                       "seed": seed})
        for fam, hs in self.pattern_histories(tier).items():
            for i in range(0, len(hs), 24):
                gs.append({"kind": "repeat", "family": fam,
                           "histories": hs[i:i + 24], "seed": seed})
        if tier == "quick":
            for f in firsts:
                gs.append({"prefix": [f], "depth": depth, "seed": seed})
        else:
            for f in firsts:
                m1 = fs_apply_model(m0, f) if f in FS_OPS else m0
                has_m = f not in FS_OPS
                for s in fs_enabled(m1) + [
                        op for op in LIB_OPS
                        if op.startswith("create") or has_m]:
                    gs.append({"prefix": [f, s], "depth": depth, "seed": seed})
            # the wide alphabet (dangling link under the root / root turning
            # into a directory) below the two actions that only it has
            for f in ("add:link", "morph:solo"):
                m1 = fs_apply_model(m0, f)
                for s in fs_enabled(m1, True) + [
                        op for op in LIB_OPS if op.startswith("create")]:
                    gs.append({"prefix": [f, s], "depth": depth, "seed": seed,
                               "wide": True})
        # scheduling only (the aggregate is order-independent): the first
        # group (executed twice by the determinism guard) stays a small one,
        # then the long BFS groups, the small pattern groups fill the tail
        small = [g for g in gs if g.get("kind") == "repeat"]
        return small[:1] + [g for g in gs if g.get("kind") != "repeat"] \
            + small[1:]

    def pattern_histories(self, tier):
        """Families of histories outside the BFS alphabet (every history is
        judged at its last operation; failing operations are ordinary members:
        their observable is the exception type)."""
        deep = tier != "quick"
        fam = {}

        # --- failed: an operation that FAILS below the top level of its
        # directory walk (dangling link in top/d), then successful creates of
        # the same root (link removed) and of another root
        h = []
        failing = ["create:1", "create:2", "create:3", "create:auto",
                   "create:cliq"] + (["create:2c", "create:3c", "create:1a",
                                      "create:cli:plain"] if deep else [])
        after_same = ["create:1", "create:3", "create:auto"] + (
            ["create:2", "create:1a", "create:cliq"] if deep else [])
        after_other = ["create:1:other", "create:2:other", "create:1a:other"] \
            + (["create:3:other", "create:auto:other"] if deep else [])
        for f in failing:
            h.append(["add:link", f])
            for g in after_same:
                h.append(["add:link", f, "del:link", g])
            for g in after_other:
                h.append(["add:link", f, g])
                h.append(["add:link", f, "del:link", g])
        for x in ("recheck", "rebuild"):
            h.append(["create:1", "add:link", x, "del:link", x])
            h.append(["create:1", "add:link", x, "del:link", "create:1"])
            h.append(["create:1", "add:link", x, "create:1:other"])
        # failures at the top level (no such root / no metafile yet)
        for g in ("create:1", "create:1:other", "create:2"):
            h.append(["create:1:missing", g])
            h.append(["create:2:missing", g])
        for x in ("magnet", "recheck", "edit", "rebuild"):
            h.append([x])
            h.append([x, "create:1", x])
        # the failing operation itself after something else happened
        for x in ("recheck", "rebuild", "create:1", "create:2", "keep:3c"):
            h.append(["create:1", "add:link", x])
        h.append(["create:1", "create:2:missing"])
        h.append(["keep:1", "add:link", "keep:1", "del:link", "keep:1"])
        h.append(["keep:3c", "add:link", "keep:3c", "del:link", "keep:3c"])
        for f in failing:
            # the same root with a third entry (its native listing order is
            # unsorted on filesystems that enumerate oldest-first or
            # newest-first alike)
            h.append(["add:n", "add:link", f, "del:link", "create:1"])
        if deep:
            for f in failing:
                for g in after_same + after_other:
                    h.append(["add:link", f, f, "del:link", g])
                    if g != "create:1":
                        h.append(["add:n", "add:link", f, "del:link", g])
        fam["failed"] = h

        # --- cli: creates through torrentfile.cli.execute with list-valued
        # options given by flag / by configuration file (both key spellings) in
        # one operation and absent in the next
        ops = ["create:cfg:full", "create:cfg:bare", "create:cfg:alias",
               "create:cfg:both", "create:cfg:alias+a", "create:cli:plain",
               "create:cli:lists", "create:cli:short", "create:cliq"]
        setters = ["create:cfg:full", "create:cfg:alias", "create:cfg:both",
                   "create:cfg:alias+a", "create:cli:lists",
                   "create:cli:short"]
        firsts = ops if deep else setters + ["create:cliq"]
        h = [[a, b] for a in firsts for b in ops]
        h += [[a, a] for a in ops if a not in firsts]
        two = setters if deep else ["create:cfg:full", "create:cfg:alias",
                                    "create:cfg:both", "create:cli:lists"]
        for a in two:
            for b in two:
                if a != b or deep:
                    for z in ("create:cli:plain", "create:cfg:bare"):
                        h.append([a, b, z])
        for z in ("create:cli:plain", "create:cfg:alias"):
            h.append(["create:cfg:alias", "create:cfg:alias", z])
            h.append(["create:cfg:alias", "create:1", z])
        h.append(["create:1", "edit:cli:lists", "edit:cli:comment"])
        h.append(["create:1", "edit:cli:lists", "create:1", "edit:cli:comment"])
        h.append(["create:1", "edit:cli:lists", "create:cli:plain"])
        h.append(["create:cli:lists", "create:1", "edit:cli:comment"])
        h.append(["create:cfg:alias", "create:1", "edit:cli:comment"])
        h.append(["create:1", "edit:cli:lists", "create:2", "edit:cli:lists"])
        fam["cli"] = h

        # --- magnet: several metafile slots (own slot + foreign metafiles
        # from the reference encoder), library and CLI route, in every order
        h = []
        F = list(FOREIGN)
        for a in F:
            for b in F:
                h.append([f"magnet:f:{a}", f"magnet:f:{b}"])
                h.append([f"magnet:cli:f:{a}", f"magnet:cli:f:{b}"])
                if deep or (a != b and a in ("ann", "tiers")):
                    h.append([f"magnet:f:{a}", f"magnet:cli:f:{b}"])
                    h.append([f"magnet:cli:f:{a}", f"magnet:f:{b}"])
        for c in ("create:1", "create:3", "create:cfg:full") if deep else (
                "create:1", "create:cfg:full"):
            for a in F if deep else ("ann", "tiers", "none"):
                h.append([c, f"magnet:f:{a}", "magnet:own"])
                h.append([c, f"magnet:cli:f:{a}", "magnet:cli:own"])
                h.append([c, "magnet:own", f"magnet:f:{a}"])
        for a in ("ann", "tiers"):
            for b in ("ann2", "none"):
                for c in ("none", "ws", "ann"):
                    h.append([f"magnet:f:{a}", f"magnet:f:{b}",
                              f"magnet:f:{c}"])
        fam["magnet"] = h

        # --- keep: the caller keeps its creator object, the payload changes,
        # assemble() and write() again on the same object
        h = []
        kinds = ["1", "1a", "2c", "3c", "2", "3"]
        changes = ["add:n", "del:b", "rewrite:b", "grow:a"] + (
            ["biggrow:a"] if deep else [])
        for k in kinds:
            a = f"keep:{k}"
            h.append([a, a])
            for f in changes:
                h.append([a, f, a])
            h.append([a, "add:n", a, "del:n", a])
            h.append(["grow:a", a, "shrink:a", a])
            so = f"keep:{k}:solo"
            h.append([so, "resize:solo", so])
            h.append(["resize:solo", so, "resize:solo", so])
            h.append([so, "morph:solo", so])
            h.append(["morph:solo", so, "morph:solo", so])
            h.append(["morph:solo", so, "resize:solo", so])
            # new objects on a root that changed its type
            c = f"create:{k}:solo"
            h.append([c, "morph:solo", c])
            h.append(["morph:solo", c, "morph:solo", c])
            # an object kept while another one works on the same root
            h.append([a, "rewrite:b", f"create:{k}", a])
            if deep:
                for k2 in kinds:
                    if k2 != k:
                        h.append([a, "rewrite:b", f"keep:{k2}", "grow:a", a])
        fam["keep"] = h
        for k, hs in fam.items():
            seen = set()
            fam[k] = [x for x in hs
                      if not (tuple(x) in seen or seen.add(tuple(x)))]
        return fam

    def repeat_histories(self):
        """Depth-4/5 histories of the shape  create ; X ; change ; X  (and
        create ; X ; change ; create' ; X): the same inspecting operation
        before and after a filesystem change."""
        m0 = initial_model()
        out = []
        creates = ["create:1", "create:2", "create:3", "create:3:solo",
                   "create:2:p32"]
        for c in creates:
            for x in ("recheck", "rebuild", "magnet", "edit"):
                for f in fs_enabled(m0):
                    out.append([c, x, f, x])
                    out.append([c, x, f, c, x])
        # every creator (incl. the class creators that are not in the BFS
        # alphabet) at two piece lengths and on two roots, in both orders,
        # with the multi-piece file at 3/2 and at 9/5 pieces
        kinds = ["1", "2", "3", "2c", "3c", "1a"]
        for k in kinds:
            a, b = f"create:{k}", f"create:{k}:p32"
            for pre in ([], ["grow:a"]):
                out.append(pre + [a, b])
                out.append(pre + [b, a])
                out.append(pre + [a, "grow:a" if not pre else "shrink:a", b])
            out.append([f"create:{k}:solo", a])
            out.append([a, f"create:{k}:solo", b])
        for k1 in kinds:
            for k2 in kinds:
                if k1 != k2:
                    out.append(["grow:a", f"create:{k1}:p32", f"create:{k2}"])
        # two different configuration files in one process; a caller-owned
        # argument list used for two creates
        out.append(["create:cfg:full", "create:cfg:bare"])
        out.append(["create:cfg:bare", "create:cfg:full", "create:cfg:bare"])
        out.append(["create:cfg:full", "create:1", "create:cfg:bare"])
        # relative arguments before and after a change of working directory
        for c in ("create:1", "create:2", "create:3"):
            out.append([c, "rebuild:rel:w1", "rebuild:rel:w2"])
            out.append([c, "rebuild:rel:w2", "rebuild:rel:w1"])
            out.append([c, "rebuild", "rebuild:rel:w1"])
        out.append(["create:relp:w1", "create:relp:w2"])
        out.append(["create:relp:w2", "create:relp:w1"])
        out.append(["create:relp:w1", "create:relp:w2", "create:relp:w1"])
        out.append(["create:listarg", "create:listarg"])
        out.append(["create:listarg", "add:n", "create:listarg"])
        return out

    def run_group(self, g):
        if self.zyg is None:
            self.worker_init_late()
        if g.get("kind") == "repeat":
            return self.run_repeat(g)
        res = core.Result()
        seed, depth = g["seed"], g["depth"]
        base = world.fresh_dir("c9_")
        counter = [0]
        memo = {}
        seen = set()

        def execute(hist):
            counter[0] += 1
            S = os.path.join(base, f"s{counter[0]}")
            r = self.zyg.call({"kind": "history", "ops": list(hist),
                               "sandbox": S, "seed": seed})
            res.transitions += 1
            res.evals += 1
            last = r["last"]
            if last is not None:
                key = (last["op"], last["canon"])
                if key not in memo:
                    ob = self.zyg.call({"kind": "single", "op": last["op"],
                                        "sandbox": last["snap"]})
                    memo[key] = ob
                    res.extra["oracle_queries_pristine_fork"] += 1
                res.validated += 1
                want = memo[key]
                if want != last["obs"]:
                    what = (last["obs"][0] if last["obs"][0] == "raised"
                            else "differs")
                    ops_kinds = "+".join(sorted(set(
                        o.split(":")[0] for o in hist[:-1])))
                    res.violation(
                        f"C09|{last['op']}|{what}-from-fresh-process|after:"
                        f"{ops_kinds}",
                        {"ops": list(hist), "seed": seed},
                        {"in_history": summarize(last["obs"]),
                         "fresh": summarize(want)})
                    res.outcomes["differs:" + last["op"]] += 1
                else:
                    res.outcomes[same_tag(last)] += 1
            shutil.rmtree(S, ignore_errors=True)
            shutil.rmtree(S + ".before", ignore_errors=True)
            return r

        frontier = [tuple(g["prefix"])]
        # the prefix' own proper prefixes are judged by the groups they start
        level = len(g["prefix"])
        while frontier and level <= depth:
            nxt = []
            for hist in frontier:
                r = execute(hist)
                key = r["state"]
                if key in seen:
                    res.extra["histories_merged_into_known_state"] += 1
                    continue
                seen.add(key)
                if level < depth:
                    ops = fs_enabled(r["model"], g.get("wide", False)) + [
                        op for op in LIB_OPS
                        if op.startswith("create") or r["has_m"]]
                    for op in ops:
                        nxt.append(hist + (op,))
            frontier = nxt
            level += 1
        res.states += len(seen)
        res.extra["max_depth"] = max(res.extra.get("max_depth", 0), depth)
        res.sample({"prefix": g["prefix"], "depth": depth,
                    "states": len(seen)})
        return res

    def run_repeat(self, g):
        res = core.Result()
        seed = g["seed"]
        base = world.fresh_dir("c9p_")
        n = 0
        memo = {}
        for hist in g["histories"]:
            # judge the last operation of every prefix that ends in a
            # library operation (prefixes are cheap; states are counted once)
            n += 1
            S = os.path.join(base, f"s{n}")
            r = self.zyg.call({"kind": "history", "ops": list(hist),
                               "sandbox": S, "seed": seed})
            res.transitions += 1
            res.evals += 1
            res.states += 1
            last = r["last"]
            if last is not None:
                key = (last["op"], last["canon"])
                if key not in memo:
                    memo[key] = self.zyg.call({"kind": "single",
                                               "op": last["op"],
                                               "sandbox": last["snap"]})
                res.validated += 1
                if memo[key] != last["obs"]:
                    ops_kinds = "+".join(sorted(set(
                        o.split(":")[0] for o in hist[:-1])))
                    res.violation(
                        f"C09|{last['op']}|differs-from-fresh-process|after:"
                        f"{ops_kinds}", {"ops": list(hist), "seed": seed},
                        {"in_history": summarize(last["obs"]),
                         "fresh": summarize(memo[key])})
                    res.outcomes["differs:" + last["op"]] += 1
                else:
                    res.outcomes[same_tag(last)] += 1
            shutil.rmtree(S, ignore_errors=True)
            shutil.rmtree(S + ".before", ignore_errors=True)
        res.sample({"family": g.get("family", "repeat"),
                    "repeat_histories": g["histories"][:2]})
        return res

    def worker_init_late(self):
        # fallback when the runner did not call worker_init (replay mode): the
        # current process is still pristine enough only if nothing ran before
        self.worker_init()

    def replay(self, case):
        if self.zyg is None:
            self.worker_init()
        base = world.fresh_dir("c9r_")
        S = os.path.join(base, "s")
        r = self.zyg.call({"kind": "history", "ops": case["ops"],
                           "sandbox": S, "seed": case["seed"]})
        last = r["last"]
        if last is None:
            return []
        shutil.copytree(last["snap"], last["snap"] + ".sub", symlinks=True)
        want = self.zyg.call({"kind": "single", "op": last["op"],
                              "sandbox": last["snap"]})
        sub = subprocess_oracle(last["op"], last["snap"] + ".sub")
        out = []
        if json.dumps(core.jsonable(sub)) != json.dumps(core.jsonable(want)):
            raise core.InfraError("pristine fork and subprocess disagree: "
                                  f"{summarize(want)} vs {summarize(sub)}")
        if want != last["obs"]:
            out.append({"sig": f"C09|{last['op']}|differs-from-fresh-process",
                        "detail": {"in_history": summarize(last["obs"]),
                                   "fresh": summarize(want)}})
        return out

    def finalize(self, total, tier, seed):
        """Cross-validate the pristine-fork oracle against a brand-new
        interpreter on one fixed state per operation kind."""
        from mc import zygote
        _prepare_process_baseline()
        z = zygote.Zygote(handler)
        base = world.fresh_dir("c9x_")
        n = 0
        try:
            extra = [["create:3", "add:n", "create:cli:plain"],
                     ["create:3", "add:n", "magnet:cli:f:ann"],
                     ["create:3", "add:n", "keep:3c:solo"],
                     ["create:3", "add:n", "create:1:other"],
                     ["create:3", "add:link", "create:1"]]
            for hist in [["create:3", "add:n", op] for op in LIB_OPS] + extra:
                op = hist[-1]
                S = os.path.join(base, f"x{n}")
                n += 1
                r = z.call({"kind": "history", "ops": hist, "sandbox": S,
                            "seed": seed})
                last = r["last"]
                shutil.copytree(last["snap"], last["snap"] + ".sub",
                                symlinks=True)
                a = z.call({"kind": "single", "op": op,
                            "sandbox": last["snap"]})
                b = subprocess_oracle(op, last["snap"] + ".sub")
                if json.dumps(core.jsonable(a)) != json.dumps(core.jsonable(b)):
                    raise core.InfraError(
                        f"pristine fork and new interpreter disagree on {op}:"
                        f" {summarize(a)} vs {summarize(b)}")
                total.extra["oracle_cross_validated_with_new_interpreter"] += 1
        finally:
            z.close()


def same_tag(last):
    """Outcome label of an agreeing observation; operations that fail (in the
    history and in the fresh process alike) are counted apart, so that the
    evidence shows that failing members of histories really occurred."""
    kind = last["op"].split(":")[0]
    if last["obs"][0] == "raised":
        return f"same-raised:{kind}:{last['obs'][1]}"
    return "same:" + kind


def summarize(obs):
    out = []
    for x in obs:
        if isinstance(x, (bytes, bytearray)):
            out.append(f"<{len(x)} bytes sha1 "
                       f"{hashlib.sha1(x).hexdigest()[:10]}>")
        else:
            out.append(x)
    return out


def make(pid):
    return HistoryCheck()


if __name__ == "__main__":
    if len(sys.argv) == 4 and sys.argv[1] == "--single":
        _prepare_process()
        ob = do_lib_op(sys.argv[2], sys.argv[3])
        sys.__stdout__.write(json.dumps(core.jsonable(ob)) + "\n")
