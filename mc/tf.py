"""Loading the code under test from /repo's working tree, scale control, quiet IO."""
import contextlib
import io
import logging
import os
import sys

REPO = os.environ.get("VERIF_REPO", "/repo")

if sys.path[0] != REPO:
    sys.path.insert(0, REPO)

import torrentfile  # noqa: E402
import torrentfile.cli  # noqa: E402
import torrentfile.commands  # noqa: E402
import torrentfile.edit  # noqa: E402
import torrentfile.hasher  # noqa: E402
import torrentfile.rebuild  # noqa: E402
import torrentfile.recheck  # noqa: E402
import torrentfile.torrent  # noqa: E402
import torrentfile.utils  # noqa: E402
import torrentfile.mixins  # noqa: E402
import torrentfile.interactive  # noqa: E402

# package attributes `recheck`, `edit`, `create`, `magnet`, `info` are the
# command *functions*; take the modules from sys.modules
M = {n: sys.modules["torrentfile." + n] for n in
     ("cli", "commands", "edit", "hasher", "rebuild", "recheck", "torrent",
      "utils", "mixins", "interactive")}
hasher = M["hasher"]
recheck = M["recheck"]
utils = M["utils"]
torrent = M["torrent"]
rebuild = M["rebuild"]
edit = M["edit"]
commands = M["commands"]
cli = M["cli"]

if not os.path.realpath(torrentfile.__file__).startswith(
        os.path.realpath(REPO) + os.sep):
    raise SystemExit(f"torrentfile imported from {torrentfile.__file__}, "
                     f"not from {REPO}")

REAL_B = 16384
_orig_normalize = utils.normalize_piece_length


class _Null(io.TextIOBase):
    def write(self, s):
        return len(s)

    def flush(self):
        pass

    def isatty(self):
        return False


NULL = _Null()


def block_size():
    return hasher.BLOCK_SIZE


def set_scale(B):
    """Rebind the one block-size constant (and, off real scale, bypass the
    piece-length validator, which C12 checks on its own)."""
    hasher.BLOCK_SIZE = B
    recheck.BLOCK_SIZE = B
    if B == REAL_B:
        utils.normalize_piece_length = _orig_normalize
    else:
        utils.normalize_piece_length = lambda x: int(x)


@contextlib.contextmanager
def scale(B):
    old = hasher.BLOCK_SIZE
    set_scale(B)
    try:
        yield
    finally:
        set_scale(old)


_root_logger = logging.getLogger()


@contextlib.contextmanager
def quiet():
    """Silence stdout/stderr and undo what -q / -v do to the process."""
    so, se = sys.stdout, sys.stderr
    handlers = list(_root_logger.handlers)
    level = _root_logger.level
    dbg = os.environ.get("TORRENTFILE_DEBUG")
    sys.stdout = NULL
    sys.stderr = NULL
    try:
        yield
    finally:
        sys.stdout, sys.stderr = so, se
        for h in list(_root_logger.handlers):
            if h not in handlers:
                _root_logger.removeHandler(h)
        _root_logger.setLevel(level)
        if dbg is None:
            os.environ.pop("TORRENTFILE_DEBUG", None)
        else:
            os.environ["TORRENTFILE_DEBUG"] = dbg


def reset_process_state():
    """Harness-side reset of the history-carrying state that C09 studies, so that
    other checks are not influenced by it (each case also uses a fresh path)."""
    memo = utils.filelist_total
    if hasattr(memo, "cache"):
        memo.cache.clear()


def execute(argv):
    """Run the CLI entry point in-process, silently."""
    os.environ.setdefault("TORRENTFILE_DEBUG", "OFF")
    with quiet():
        return cli.execute(list(argv))


CREATORS = {
    "TorrentFile": lambda **kw: torrent.TorrentFile(**kw),
    "TorrentFileV2": lambda **kw: torrent.TorrentFileV2(**kw),
    "TorrentFileHybrid": lambda **kw: torrent.TorrentFileHybrid(**kw),
    "Assembler2": lambda **kw: torrent.TorrentAssembler(
        meta_version="2", **kw),
    "Assembler3": lambda **kw: torrent.TorrentAssembler(
        meta_version="3", **kw),
}

os.environ.setdefault("TORRENTFILE_DEBUG", "OFF")


def create(creator, path, outfile, piece_length, progress=0, **kw):
    """Create a metafile with a creator class; returns the raw bytes written."""
    with quiet():
        t = CREATORS[creator](path=path, piece_length=piece_length,
                              outfile=outfile, progress=progress, **kw)
        out, _meta = t.write()
    with open(out, "rb") as f:
        return f.read()
