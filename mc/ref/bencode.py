"""Reference bencoding: strict (canonical-only) decoder with byte spans, tolerant
decoder, canonical encoder.  Written from BEP 3; shares no code with pyben.

Decoded values: int -> int, byte string -> bytes, list -> list, dict -> BDict
(an ordered mapping bytes -> value that also remembers, for every key, the raw
byte span (start, end) of its value inside the decoded buffer).
"""


class BencodeError(ValueError):
    """The input is not (canonical) bencoding; .reason is a short class name."""

    def __init__(self, reason, pos=-1, detail=""):
        super().__init__(f"{reason} at {pos} {detail}")
        self.reason = reason
        self.pos = pos


class BDict(dict):
    """dict with bytes keys, insertion order = order in the file, plus spans."""

    __slots__ = ("spans", "span")

    def __init__(self):
        super().__init__()
        self.spans = {}
        self.span = None


def _dec(buf, i, strict, depth=0):
    n = len(buf)
    if i >= n:
        raise BencodeError("truncated", i)
    c = buf[i:i + 1]
    if c == b"i":
        j = buf.find(b"e", i)
        if j < 0:
            raise BencodeError("truncated-int", i)
        body = buf[i + 1:j]
        digits = body[1:] if body[:1] == b"-" else body
        if not digits or not digits.isdigit():
            raise BencodeError("bad-int", i, repr(body))
        if strict:
            if body == b"-0" or (len(digits) > 1 and digits[:1] == b"0"):
                raise BencodeError("int-redundant-digits", i, repr(body))
        return int(body), j + 1
    if c.isdigit():
        j = buf.find(b":", i)
        if j < 0:
            raise BencodeError("truncated-strlen", i)
        ln = buf[i:j]
        if not ln.isdigit():
            raise BencodeError("bad-strlen", i, repr(ln))
        if strict and len(ln) > 1 and ln[:1] == b"0":
            raise BencodeError("strlen-redundant-digits", i, repr(ln))
        k = j + 1 + int(ln)
        if k > n:
            raise BencodeError("truncated-str", i)
        return bytes(buf[j + 1:k]), k
    if c == b"l":
        out = []
        i += 1
        while True:
            if i >= n:
                raise BencodeError("truncated-list", i)
            if buf[i:i + 1] == b"e":
                return out, i + 1
            v, i = _dec(buf, i, strict, depth + 1)
            out.append(v)
    if c == b"d":
        out = BDict()
        start = i
        i += 1
        last = None
        while True:
            if i >= n:
                raise BencodeError("truncated-dict", i)
            if buf[i:i + 1] == b"e":
                out.span = (start, i + 1)
                return out, i + 1
            if not buf[i:i + 1].isdigit():
                raise BencodeError("non-string-key", i)
            k, i = _dec(buf, i, strict, depth + 1)
            if strict and last is not None:
                if k == last:
                    raise BencodeError("duplicate-key", i, repr(k))
                if k < last:
                    raise BencodeError("unsorted-keys", i,
                                       repr(last) + ">" + repr(k))
            if not strict and k in out:
                raise BencodeError("duplicate-key", i, repr(k))
            last = k
            vs = i
            v, i = _dec(buf, i, strict, depth + 1)
            out[k] = v
            out.spans[k] = (vs, i)
    raise BencodeError("bad-token", i, repr(c))


def decode(buf, strict=True):
    """Decode a complete buffer. strict=True rejects every non-canonical form
    (unsorted/duplicate keys, redundant digits, trailing bytes)."""
    buf = bytes(buf)
    v, i = _dec(buf, 0, strict)
    if i != len(buf):
        raise BencodeError("trailing-bytes", i)
    return v


def encode(v):
    """Canonical encoder (keys sorted by raw bytes). str is UTF-8."""
    if isinstance(v, bool):
        raise TypeError("bool")
    if isinstance(v, int):
        return b"i%de" % v
    if isinstance(v, str):
        v = v.encode("utf-8")
    if isinstance(v, (bytes, bytearray)):
        return b"%d:%s" % (len(v), bytes(v))
    if isinstance(v, (list, tuple)):
        return b"l" + b"".join(encode(x) for x in v) + b"e"
    if isinstance(v, dict):
        items = []
        for k, x in v.items():
            if isinstance(k, str):
                k = k.encode("utf-8")
            items.append((bytes(k), x))
        items.sort(key=lambda kv: kv[0])
        for a, b in zip(items, items[1:]):
            if a[0] == b[0]:
                raise ValueError("duplicate key")
        return b"d" + b"".join(encode(k) + encode(x) for k, x in items) + b"e"
    raise TypeError(type(v))


def plain(v):
    """BDict/list/bytes tree -> plain dict/list tree (for comparisons)."""
    if isinstance(v, dict):
        return {k: plain(x) for k, x in v.items()}
    if isinstance(v, list):
        return [plain(x) for x in v]
    return v


def raw(buf, d, key):
    """Raw bytes of the value stored under key in BDict d (decoded from buf)."""
    s, e = d.spans[key]
    return bytes(buf[s:e])
