#!/bin/sh
# thorough tier, cheap checks first; one line per property
cd "$(dirname "$0")/.." || exit 2
rc=0
for p in C12 C18 C17 C11 C08 C19 C01 C15 C14 C06 C07 C20 C10 C03 C02 C09 C13 C04 C05 C16; do
  out=$(bin/check $p --tier thorough 2>&1); r=$?
  echo "$out" | grep -E "^\[|VIOLATION|INFRA" | tail -3
  echo "$out" | grep -c "^KNOWN-FINDING" | sed "s/^/$p known-finding lines: /"
  [ $r -ne 0 ] && { echo "$p exit=$r"; rc=1; }
done
exit $rc
