"""Reference hashing per BEP 3, BEP 47 and BEP 52 (two independent formulations).

The block size is a parameter so that the same specification serves the real
scale (B = 16384) and the scaled model (B = 2 or 4).
"""
from hashlib import sha1, sha256

ZERO = bytes(32)


class OracleError(Exception):
    """The two BEP 52 formulations disagree: the oracle itself is broken."""


def pieces_v1(stream, P):
    """BEP 3: SHA-1 of each successive P-slice; only the last may be short."""
    return b"".join(
        sha1(stream[i:i + P]).digest() for i in range(0, len(stream), P))


def _pair(hs):
    return [sha256(hs[i] + hs[i + 1]).digest() for i in range(0, len(hs), 2)]


def _pow2_at_least(n):
    p = 1
    while p < n:
        p <<= 1
    return p


def root_B(data, B):
    """Formulation B: leaves = block hashes, padded with zero hashes to the next
    power of two, reduced pairwise; returns (root, layers) where layers[k] is the
    list of node hashes k levels above the leaves."""
    leaves = [sha256(data[i:i + B]).digest() for i in range(0, len(data), B)]
    n = _pow2_at_least(len(leaves))
    cur = leaves + [ZERO] * (n - len(leaves))
    layers = [cur]
    while len(cur) > 1:
        cur = _pair(cur)
        layers.append(cur)
    return cur[0], layers


def v2_file_B(data, P, B):
    """(root, piece_layer bytes or None) by formulation B."""
    if not data:
        return None, None
    npieces = -(-len(data) // P)
    bpp = P // B
    root, layers = root_B(data, B)
    if len(data) <= P:
        # whole file within one piece: root over next-pow2 of its blocks
        return root, None
    # level of the piece layer
    lvl = bpp.bit_length() - 1
    # the tree must be at least as tall as a full piece; it is, as len > P
    layer = layers[lvl][:npieces]
    return root, b"".join(layer)


def _subtree(hs, width):
    """Merkle root of hs padded with zero hashes to width (a power of two)."""
    cur = list(hs) + [ZERO] * (width - len(hs))
    while len(cur) > 1:
        cur = _pair(cur)
    return cur[0]


def v2_file_A(data, P, B):
    """Formulation A: per-piece subtrees (each padded with zero *leaf* hashes to
    blocks-per-piece), then the tree over pieces padded with the hash of an
    all-zero-leaf piece subtree."""
    if not data:
        return None, None
    bpp = P // B
    if len(data) <= P:
        leaves = [
            sha256(data[i:i + B]).digest() for i in range(0, len(data), B)
        ]
        return _subtree(leaves, _pow2_at_least(len(leaves))), None
    piece_hashes = []
    for off in range(0, len(data), P):
        chunk = data[off:off + P]
        leaves = [
            sha256(chunk[i:i + B]).digest() for i in range(0, len(chunk), B)
        ]
        piece_hashes.append(_subtree(leaves, bpp))
    pad_piece = _subtree([], bpp)
    n = _pow2_at_least(len(piece_hashes))
    cur = piece_hashes + [pad_piece] * (n - len(piece_hashes))
    while len(cur) > 1:
        cur = _pair(cur)
    return cur[0], b"".join(piece_hashes)


_cache = {}


def v2_file(data, P, B):
    """Root and piece layer, asserting that both formulations agree."""
    key = (sha1(data).digest(), len(data), P, B)
    hit = _cache.get(key)
    if hit is not None:
        return hit
    a = v2_file_A(data, P, B)
    b = v2_file_B(data, P, B)
    if a != b:
        raise OracleError(f"BEP52 formulations disagree len={len(data)} P={P} B={B}")
    if len(_cache) > 20000:
        _cache.clear()
    _cache[key] = a
    return a


def v2_piece_hashes(data, P, B):
    """Per-piece verification hashes of a v2 file as a client checks them:
    for len<=P the single 'piece' hash is the root; else the piece layer."""
    if not data:
        return []
    root, layer = v2_file(data, P, B)
    if layer is None:
        return [root]
    return [layer[i:i + 32] for i in range(0, len(layer), 32)]
