"""World catalogue: shapes, payload bytes, materialisation, snapshots."""
import hashlib
import itertools
import os
import random
import shutil
import tempfile

ROOT_NAME = "top"

# relative paths (as tuples) under the content root; "S1" = the root is a file
SHAPES = {
    "S1": None,
    "D1": [("a",)],
    "D2": [("a",), ("b",)],
    "D2n": [("a",), ("d", "b")],
    "D3": [("a",), ("d", "b"), ("e",)],
    "D3s": [("d", "a"), ("d", "b"), ("c",)],
    "D3o": [("d", "x"), ("d.x",), ("D",)],
    "D3u": [("é",), ("z z",), (".h",)],
    "D4": [("a",), ("d", "b"), ("d", "c"), ("e",)],
    "D4n": [("a",), ("d", "e", "b"), ("d", "c"), ("f",)],
    "D5": [("a",), ("b",), ("d", "c"), ("d", "e", "f"), ("g",)],
    "D3x": [("d1", "x"), ("d2", "x"), ("y",)],
    # a direct child named like the content root itself
    "D3n": [("top",), ("a",), ("d", "b")],
    # a directory whose only file is named like the directory (ambiguous
    # with a single-file torrent in a v2-only metafile, not in v1 / hybrid)
    "D1n": [("top",)],
    # a root whose only entry is a *directory* named like the root
    "D2rr": [("top", "a"), ("top", "b")],
    "D1rr": [("top", "a")],
    # a real top-level directory called .pad (the name padding entries use)
    "D3p": [(".pad", "x"), ("a",), (".pad", "y")],
    # names with numbers: raw byte order f10 < f2, "natural" order differs
    "D3num": [("f2",), ("f10",), ("d", "f1")],
    # names containing a backslash (an ordinary character on POSIX)
    "D3b": [("back\\slash",), ("d\\e", "f"), ("z",)],
    # a decomposed (NFD) name with a sibling that sorts between the
    # decomposed and the composed spelling: 65 CC 81 < 68 < C3 A9
    "D3d": [("e\u0301te\u0301.bin",), ("hiver.bin",), ("z", "e\u0301")],
    # sibling names that are canonically equivalent (NFC / NFD spelling of one
    # text): distinct files that collide under Unicode normalisation
    "D3q": [("caf\u00e9.bin",), ("cafe\u0301.bin",), ("d", "x")],
    # payload files named like the temporary names a careful writer would
    # use for its neighbour
    "D3part": [("clip.bin",), ("clip.bin.part",), ("clip.bin.tmp",)],
    # payload files named like the output metafile ("o.torrent")
    "D3t": [("o.torrent",), ("d", "o.torrent"), ("e",)],
}

# process-environment axis of the recheck checks: a short name first, then
# names wider than a quarter of a narrow terminal with long extensions (what
# a progress display has to shorten), one of them not ASCII (what an ASCII
# filesystem encoding cannot spell), one in a sub-directory
SHAPES["D4env"] = [("a",), ("index.properties",),
                   ("d", "été-report.torrent"), ("z.bin",)]
# the same without the non-ASCII name
SHAPES["D4enva"] = [("a",), ("index.properties",),
                    ("d", "report.torrent"), ("z.bin",)]

# directories without any file below them (created next to the files)
EMPTY_DIRS = {"D3e": [("e",), ("d", "f", "g"), ("zz",)]}
SHAPES["D3e"] = [("a",), ("d", "b"), ("m",)]


# scale / count: many files in one directory, many directories, deep nesting,
# long names (sizes for these come as explicit vectors, see e1.cyclic_vectors)
SHAPES["W40"] = [(f"f{i:02d}",) for i in range(40)]
SHAPES["W300"] = [(f"f{i:03d}",) for i in range(100)] + \
    [(f"d{i % 7}", f"g{i:03d}") for i in range(150)] + \
    [(f"d{i % 3}", f"s{i % 5}", f"h{i:03d}") for i in range(50)]
SHAPES["W1100"] = [(f"f{i:04d}",) for i in range(1100)]
SHAPES["N16"] = [tuple(f"n{j}" for j in range(16)) + ("a",),
                 ("n0", "b"),
                 tuple(f"n{j}" for j in range(8)) + ("c",),
                 tuple(f"n{j}" for j in range(16)) + ("d",),
                 ("z",)]
SHAPES["L250"] = [("a" * 250,), ("d" * 250, "b" * 250), ("a" * 249 + "b",),
                  ("e",)]


# File names near NAME_MAX (255 bytes on Linux file systems): the lengths on
# both sides of the margins a writer needs when it derives a sibling name
# from the final one ("<name>.part" = +5, "<name>.<8 chars>.part" = +14).
LONG_NAME_LENGTHS = (241, 242, 250, 251, 255)


def long_name(nbytes, enc, tag="a"):
    """A file name of exactly nbytes bytes in UTF-8: enc 'a' = ASCII, 'u' =
    three-byte characters (CJK) filled up with ASCII; tag (one ASCII
    character) distinguishes names of the same length."""
    if enc == "a":
        s = tag + "n" * (nbytes - 1)
    else:
        k = (nbytes - 1) // 3
        s = tag + "日" * k + "x" * (nbytes - 1 - 3 * k)
    if len(s.encode("utf-8")) != nbytes or nbytes > 255:
        raise AssertionError("long_name length")
    return s


for _n in LONG_NAME_LENGTHS:
    for _e in "au":
        # LN<n><enc>: a long-named file at the top, one in a sub-directory,
        # a short-named neighbour; LNS<n><enc>: the same name as a
        # single-file torrent's name (see long_root_name)
        SHAPES[f"LN{_n}{_e}"] = [(long_name(_n, _e, "a"),),
                                 ("d", long_name(_n, _e, "b")), ("e",)]


def long_root_name(nbytes, enc):
    return long_name(nbytes, enc, "r")


# Contents whose digests happen to be well-formed UTF-8 text: a bencode
# decoder that hands text-like byte strings back as `str` answers differently
# for these hash fields than for (almost) all others.  Found by a plain
# counter search; verified on every use (text_like_witnesses).
_TEXT_SHA1 = [b"payload-4917\n", b"w43118", b"w79774", b"w197821"]
_TEXT_SHA256 = [b"payload-15246583\n"]


def _is_text(b):
    try:
        b.decode("utf-8")
        return True
    except UnicodeDecodeError:
        return False


def text_like_witnesses():
    """(contents whose SHA-1 is valid UTF-8, contents whose SHA-256 is)."""
    for w in _TEXT_SHA1:
        if not _is_text(hashlib.sha1(w).digest()):
            raise AssertionError("witness lost: " + repr(w))
    for w in _TEXT_SHA256:
        if not _is_text(hashlib.sha256(w).digest()):
            raise AssertionError("witness lost: " + repr(w))
    return list(_TEXT_SHA1), list(_TEXT_SHA256)


def text_like_worlds():
    """[(shape, sizes, cids)]: payloads whose v1 piece string / v2 pieces
    roots are well-formed UTF-8 text (real scale, one piece)."""
    s1, s256 = text_like_witnesses()
    out = []
    lit = lambda b: "lit:" + b.hex()
    for w in s1:
        out.append(("S1", [len(w)], [lit(w)]))
        out.append(("D2", [1, len(w) - 1], [lit(w[:1]), lit(w[1:])]))
        out.append(("D2n", [len(w) - 2, 2], [lit(w[:-2]), lit(w[-2:])]))
    for x in s256:
        out.append(("S1", [len(x)], [lit(x)]))
        out.append(("D1", [len(x)], [lit(x)]))
        out.append(("D2n", [len(x), 40000], [lit(x), 1]))
        out.append(("D2n", [40000, len(x)], [1, lit(x)]))
        out.append(("D3x", [len(x), len(x), 5], [lit(x), lit(x), 2]))
    return out


def nfiles(shape):
    return 1 if SHAPES[shape] is None else len(SHAPES[shape])


_BUF = {}
_TABLE = bytes([1] + list(range(1, 256)))
_MAXLEN = 1 << 25


def content(seed, cid, length):
    """Deterministic bytes without any zero byte; prefix-stable in length."""
    if length == 0:
        return b""
    if cid == "zero":
        return bytes(length)          # all-zero content (creation checks only)
    if isinstance(cid, str) and cid.startswith(("ztail", "zhead")):
        # one half non-zero bytes, the other half zero bytes
        k = (length + 1) // 2
        body = content(seed, "h:" + cid, k)
        return body + bytes(length - k) if cid.startswith("ztail") \
            else bytes(length - k) + body
    if isinstance(cid, str) and cid.startswith("holes"):
        # mostly zero bytes with short data islands that start on 4 KiB page
        # boundaries at every residue modulo the 16 KiB block (written with
        # holes when the world asks for sparse files)
        buf = bytearray(length)
        j = 0
        while True:
            off = 4096 * (5 + 13 * j)
            if off >= length:
                break
            isl = content(seed, f"{cid}:{j}", min(3000 + 700 * (j % 3),
                                                  length - off))
            buf[off:off + len(isl)] = isl
            j += 1
        if length:
            buf[-1] = 7
        return bytes(buf)
    if isinstance(cid, str) and cid.startswith("lit:"):
        data = bytes.fromhex(cid[4:])   # literal bytes (witness contents)
        if len(data) != length:
            raise ValueError("literal content of another length")
        return data
    key = (seed, cid)
    buf = _BUF.get(key)
    if buf is None or len(buf) < length:
        size = 1 << 16
        while size < length:
            size <<= 1
        if size > _MAXLEN:
            raise ValueError("content too long")
        # prefix-stable: built from independent 64 KiB chunks
        chunks = []
        for c in range(size >> 16):
            rnd = random.Random(f"{seed}:{cid}:{c}")
            chunks.append(rnd.randbytes(1 << 16).translate(_TABLE))
        buf = b"".join(chunks)
        _BUF[key] = buf
    return buf[:length]


def files_of(world, seed):
    """Ordered list of (relpath tuple, bytes) for a world (catalogue order)."""
    shape = world["shape"]
    sizes = world["sizes"]
    cids = world.get("cids") or list(range(len(sizes)))
    if SHAPES[shape] is None:
        return [((), content(seed, cids[0], sizes[0]))]
    return [(rel, content(seed, cids[i], sizes[i]))
            for i, rel in enumerate(SHAPES[shape])]


_scratch_root = None
_parent_root = None
_counter = itertools.count()


def scratch_root():
    global _scratch_root
    if _scratch_root is None or not os.path.isdir(_scratch_root):
        base = _parent_root if _parent_root and os.path.isdir(_parent_root) \
            else os.environ.get("VERIF_SCRATCH")
        if not base:
            base = "/dev/shm" if os.path.isdir("/dev/shm") else None
        _scratch_root = tempfile.mkdtemp(prefix=f"vmc{os.getpid()}_", dir=base)
    return _scratch_root


def reset_scratch_for_child():
    """Call in a forked worker so that it gets a root of its own, below the
    parent's root (which the parent removes when the run ends)."""
    global _scratch_root, _parent_root
    _parent_root = _scratch_root
    _scratch_root = None


def fresh_dir(tag="w"):
    """A never-before-used directory path (created)."""
    d = os.path.join(scratch_root(), f"{tag}{next(_counter)}")
    os.mkdir(d)
    return d


def cleanup_scratch():
    global _scratch_root
    if _scratch_root and os.path.isdir(_scratch_root):
        shutil.rmtree(_scratch_root, ignore_errors=True)
    _scratch_root = None


def write_file(path, data, sparse=False):
    os.makedirs(os.path.dirname(path), exist_ok=True)
    with open(path, "wb") as f:
        if not sparse:
            f.write(data)
            return
        # leave every all-zero 4 KiB page unwritten (a hole)
        zero = bytes(4096)
        for off in range(0, len(data), 4096):
            page = data[off:off + 4096]
            if page != zero[:len(page)]:
                f.seek(off)
                f.write(page)
        f.truncate(len(data))


def materialize(files, parent, name=ROOT_NAME, shape=None, hardlink=False,
                sparse=False):
    """Create parent/name as described by files [(rel, bytes)]; return its path.
    With hardlink=True, non-empty files with equal bytes are further names
    (hard links) of one inode instead of separate files."""
    root = os.path.join(parent, name)
    for rel in EMPTY_DIRS.get(shape, ()):
        os.makedirs(os.path.join(root, *rel), exist_ok=True)
    if len(files) == 1 and files[0][0] == ():
        write_file(root, files[0][1], sparse)
        return root
    os.makedirs(root, exist_ok=True)
    first = {}
    for rel, data in files:
        p = os.path.join(root, *rel)
        if hardlink and data and data in first:
            os.makedirs(os.path.dirname(p), exist_ok=True)
            os.link(first[data], p)
            continue
        write_file(p, data, sparse)
        first.setdefault(data, p)
    return root


def snapshot(path, with_bytes=False):
    """Canonical description of a file tree: {relpath: (type, size, sha256, mode)}.
    Directories are listed too (type 'd')."""
    out = {}
    if not os.path.lexists(path):
        return out
    if not os.path.isdir(path) or os.path.islink(path):
        out["."] = _entry(path, with_bytes)
        return out
    out["."] = ("d", 0, "", os.stat(path).st_mode & 0o7777)
    for dirpath, dirnames, filenames in os.walk(path):
        dirnames.sort()
        for n in dirnames:
            p = os.path.join(dirpath, n)
            rel = os.path.relpath(p, path)
            if os.path.islink(p):
                out[rel] = ("l", 0, os.readlink(p), 0)
            else:
                out[rel] = ("d", 0, "", os.stat(p).st_mode & 0o7777)
        for n in sorted(filenames):
            p = os.path.join(dirpath, n)
            out[os.path.relpath(p, path)] = _entry(p, with_bytes)
    return out


def _entry(p, with_bytes):
    if os.path.islink(p):
        return ("l", 0, os.readlink(p), 0)
    st = os.stat(p)
    with open(p, "rb") as f:
        data = f.read()
    h = data if with_bytes else hashlib.sha256(data).hexdigest()
    return ("f", st.st_size, h, st.st_mode & 0o7777)


def read_tree(path):
    """{rel tuple: bytes} of regular files under path (or {(): bytes})."""
    if os.path.isfile(path):
        with open(path, "rb") as f:
            return {(): f.read()}
    out = {}
    for dirpath, _dirs, filenames in os.walk(path):
        for n in filenames:
            p = os.path.join(dirpath, n)
            rel = tuple(os.path.relpath(p, path).split(os.sep))
            with open(p, "rb") as f:
                out[rel] = f.read()
    return out
