#!/bin/sh
# tools/replay_selftest.sh <seed dir> <ID>: the check's replay file must reproduce on the seeded tree and hold on /repo
d="$1"; id="$2"
HERE="$(cd "$(dirname "$0")/.." && pwd)"
wt=$(mktemp -d /dev/shm/rs_XXXXXX); rmdir "$wt"
git -C /repo worktree add -q --detach "$wt" HEAD || exit 2
out=$(mktemp -d /dev/shm/rsout_XXXXXX)
trap 'git -C /repo worktree remove --force "$wt" 2>/dev/null; rm -rf "$out"' EXIT
git -C "$wt" apply "$d/patch.diff" || exit 2
VERIF_REPO="$wt" VERIF_OUT="$out" "$HERE/bin/check" "$id" > "$out/run.log" 2>&1
f=$(grep -m1 '^VIOLATION' "$out/run.log" | sed 's/.*replay=//')
[ -z "$f" ] && { echo "$id: no violation produced"; exit 1; }
VERIF_REPO="$wt" VERIF_OUT="$out" "$HERE/bin/check" "$id" --replay "$f" > "$out/r1.log" 2>&1; a=$?
VERIF_REPO="$wt" VERIF_OUT="$out" "$HERE/bin/check" "$id" --replay "$f" > "$out/r1b.log" 2>&1; a2=$?
VERIF_OUT="$out" "$HERE/bin/check" "$id" --replay "$f" > "$out/r2.log" 2>&1; b=$?
echo "$id replay on seeded tree: exit=$a (again: $a2)   on /repo: exit=$b"
[ $a = 1 ] && [ $a2 = 1 ] && [ $b = 0 ] || { tail -n 5 "$out/r1.log"; tail -n 5 "$out/r2.log"; }
