#!/usr/bin/env python3
"""Run every seeded change against the quick checks that are recorded as
catching it (seeded/<id>/meta.json: caught_by).  Each seed is applied to a
scratch worktree of /repo HEAD (or, if it does not apply there any more, of
its base commit); nothing is applied to /repo.  Writes seeded/REGRESSION.json."""
import json
import os
import shutil
import subprocess
import sys
import tempfile

HERE = os.path.dirname(os.path.dirname(os.path.abspath(__file__)))


def run(cmd, **kw):
    return subprocess.run(cmd, capture_output=True, text=True, **kw)


def main():
    only = set(sys.argv[1:])
    root = os.path.join(HERE, "seeded")
    # results are merged into the existing file, keyed by seed
    regfile = os.path.join(os.environ.get("VERIF_REGRESSION_DIR", root),
                           "REGRESSION.json")
    try:
        old = {r["seed"]: r for r in json.load(open(regfile))}
    except (OSError, ValueError):
        old = {}
    out = []
    for sid in sorted(os.listdir(root)):
        d = os.path.join(root, sid)
        mp = os.path.join(d, "meta.json")
        if not os.path.isfile(mp) or (only and sid not in only):
            continue
        meta = json.load(open(mp))
        rec = {"seed": sid, "property": meta["breaks_property"]}
        wt = tempfile.mkdtemp(prefix="sr_", dir="/dev/shm")
        os.rmdir(wt)
        res = tempfile.mkdtemp(prefix="srout_", dir="/dev/shm")
        base = "HEAD"
        run(["git", "-C", "/repo", "worktree", "add", "-q", "--detach", wt,
             "HEAD"])
        ap = run(["git", "-C", wt, "apply", os.path.join(d, "patch.diff")])
        if ap.returncode != 0:
            ap = run(["git", "-C", wt, "apply", "--3way",
                      os.path.join(d, "patch.diff")])
            if ap.returncode != 0:
                run(["git", "-C", wt, "checkout", "-q", "--", "."])
        if ap.returncode != 0 or meta.get("run_on") == "base":
            run(["git", "-C", "/repo", "worktree", "remove", "--force", wt])
            base = meta.get("base_commit", "fec644c")
            run(["git", "-C", "/repo", "worktree", "add", "-q", "--detach",
                 wt, base])
            pf = os.path.join(d, f"patch_{base}.diff")
            ap = run(["git", "-C", wt, "apply",
                      pf if os.path.exists(pf) else os.path.join(
                          d, "patch.diff")])
        rec["applied_to"] = base
        try:
            if ap.returncode != 0:
                rec["status"] = "patch-does-not-apply"
            else:
                env = dict(os.environ, VERIF_REPO=wt, VERIF_OUT=res)
                verdicts = {}
                for pid in meta.get("caught_by", {}):
                    k = run([os.path.join(HERE, "bin", "check"), pid], env=env)
                    sig = [l.strip()[5:] for l in k.stdout.splitlines()
                           if l.strip().startswith("sig:")][:1]
                    verdicts[pid] = {"exit": k.returncode, "first_sig": sig}
                rec["verdicts"] = verdicts
                rec["status"] = "caught" if verdicts and all(
                    v["exit"] == 1 for v in verdicts.values()) else (
                    "caught-by-some" if any(v["exit"] == 1 for v in
                                            verdicts.values()) else "MISSED")
        finally:
            run(["git", "-C", "/repo", "worktree", "remove", "--force", wt])
            shutil.rmtree(res, ignore_errors=True)
        print(sid, rec["status"], rec.get("applied_to"),
              {k: v["exit"] for k, v in rec.get("verdicts", {}).items()},
              flush=True)
        out.append(rec)
        rec["verif_commit"] = run(["git", "-C", HERE, "log", "--format=%h",
                                   "-1"]).stdout.strip()
        rec["repo_commit"] = run(["git", "-C", "/repo", "log", "--format=%h",
                                  "-1"]).stdout.strip()
        old[sid] = rec
        json.dump([old[k] for k in sorted(old)], open(regfile, "w"), indent=1)


if __name__ == "__main__":
    main()
