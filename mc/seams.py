"""Harness-side seams: directory listing order, clock, audit monitor.

All seams are installed by rebinding module attributes inside a `with` block;
the harness itself uses the saved originals.
"""
import contextlib
import itertools
import os
import sys

_real_listdir = os.listdir
_real_scandir = os.scandir


@contextlib.contextmanager
def nullctx():
    yield


class _ScandirList:
    """Minimal scandir result supporting iteration and context management."""

    def __init__(self, entries):
        self._it = iter(entries)

    def __iter__(self):
        return self

    def __next__(self):
        return next(self._it)

    def __enter__(self):
        return self

    def __exit__(self, *a):
        return False

    def close(self):
        pass


class ListingSeam:
    """Controls the order in which os.listdir / os.scandir enumerate entries.

    chooser(path, names_sorted) -> permuted list of names.
    """

    def __init__(self, chooser, under=None):
        self.chooser = chooser
        self.under = under
        self.calls = 0

    def _applies(self, path):
        if self.under is None:
            return True
        try:
            p = os.path.abspath(os.fspath(path))
        except TypeError:
            return False
        if isinstance(p, bytes):
            p = os.fsdecode(p)
        return p == self.under or p.startswith(self.under + os.sep)

    def listdir(self, path="."):
        names = _real_listdir(path)
        if not self._applies(path):
            return names
        self.calls += 1
        return self.chooser(os.fspath(path), sorted(names))

    def scandir(self, path="."):
        it = _real_scandir(path)
        if not self._applies(path):
            return it
        with it:
            entries = {e.name: e for e in it}
        self.calls += 1
        order = self.chooser(os.fspath(path), sorted(entries))
        return _ScandirList([entries[n] for n in order])

    def __enter__(self):
        os.listdir = self.listdir
        os.scandir = self.scandir
        return self

    def __exit__(self, *a):
        os.listdir = _real_listdir
        os.scandir = _real_scandir
        return False


def listing_order(mode, under=None):
    if mode == "reversed":
        return ListingSeam(lambda p, names: names[::-1], under)
    if mode == "sorted":
        return ListingSeam(lambda p, names: names, under)
    raise ValueError(mode)


def permutations_of(names, limit=None):
    perms = list(itertools.permutations(names))
    return perms if limit is None else perms[:limit]


# --------------------------------------------------------------------------
# audit monitor: C-level record of filesystem mutations (passive)

_MUTATORS = {
    "os.remove", "os.rename", "os.mkdir", "os.rmdir", "os.truncate",
    "os.link", "os.symlink", "os.chmod", "os.utime", "os.chown",
    "shutil.copyfile", "shutil.copymode", "shutil.copystat", "shutil.move",
    "shutil.rmtree", "shutil.copytree", "tempfile.mkstemp", "tempfile.mkdtemp",
}
LOWLEVEL = {"open-w", "open-create", "os.remove", "os.rename", "os.mkdir",
            "os.rmdir", "os.truncate", "os.link", "os.symlink", "os.chmod",
            "os.utime", "os.chown"}
_audit_sinks = []
_audit_installed = False


def _audit(event, args):
    if not _audit_sinks:
        return
    if event == "open":
        path, mode, flags = args
        if isinstance(flags, int) and (flags & (os.O_WRONLY | os.O_RDWR
                                                | os.O_CREAT | os.O_TRUNC
                                                | os.O_APPEND)):
            sp = _s(path)
            existed = isinstance(sp, str) and os.path.lexists(sp)
            rec = ("open-w" if existed or not flags & os.O_CREAT
                   else "open-create", sp, flags)
        else:
            return
    elif event in _MUTATORS:
        rec = (event,) + tuple(_s(a) for a in args[:2])
    else:
        return
    for s in _audit_sinks:
        s.append(rec)


def _s(x):
    if isinstance(x, bytes):
        return os.fsdecode(x)
    if isinstance(x, (str, int)) or x is None:
        return x
    try:
        return os.fspath(x)
    except TypeError:
        return repr(x)


class Audit:
    """with Audit(root) as a: ...; a.events = mutating events on paths under
    root (or all when root is None)."""

    def __init__(self, root=None):
        self.root = os.path.realpath(root) if root else None
        self.raw = []
        self.events = []

    def __enter__(self):
        global _audit_installed
        if not _audit_installed:
            sys.addaudithook(_audit)
            _audit_installed = True
        self.cwd = os.getcwd()
        _audit_sinks.append(self.raw)
        return self

    def __exit__(self, *a):
        _audit_sinks.remove(self.raw)
        for rec in self.raw:
            paths = [p for p in rec[1:3] if isinstance(p, str)]
            paths = [os.path.normpath(os.path.join(self.cwd, p)) for p in paths]
            if self.root is None or any(
                    self._under(p) for p in paths):
                self.events.append((rec[0],) + tuple(paths))
        return False

    def raw_events_with_flags(self):
        """(event, absolute path, flags) of open events on paths under root."""
        out = []
        for rec in self.raw:
            if rec[0] in ("open-w", "open-create") and isinstance(rec[1], str):
                p = os.path.normpath(os.path.join(self.cwd, rec[1]))
                if self.root is None or self._under(p):
                    out.append((rec[0], p, rec[2]))
        return out

    def _under(self, p):
        rp = os.path.realpath(os.path.dirname(p))
        rp = os.path.join(rp, os.path.basename(p))
        return rp == self.root or rp.startswith(self.root + os.sep)
