"""Engine E2: deviation-bounded stateless choice-point explorer.

The code under test runs under seams that call `explorer.choose(n, label)`.
Choice 0 is the default environment answer.  `explore(run)` re-executes `run`
from scratch for every choice vector with at most `bound` non-default choices.
A divergence while replaying a prefix is a hard error (InfraError).
"""
from mc.core import InfraError


class Divergence(InfraError):
    pass


class Run:
    """One execution: the choices taken and the points met."""

    def __init__(self, prefix):
        self.prefix = list(prefix)
        self.choices = []
        self.points = []   # (arity, label)
        self.costs = []

    def choose(self, n, label, cost=1):
        """cost = what a non-default answer at this point counts against the
        deviation bound (0 = always explore every alternative)."""
        i = len(self.choices)
        if i < len(self.prefix):
            c, (pn, plabel) = self.prefix[i][0], self.prefix[i][1][:2]
            if pn != n or plabel != label:
                raise Divergence(
                    f"replay divergence at point {i}: recorded {(pn, plabel)}, "
                    f"now {(n, label)}")
        else:
            c = 0
        if not 0 <= c < n:
            raise Divergence(f"choice {c} out of range {n} at point {i}")
        self.choices.append(c)
        self.points.append((n, label))
        self.costs.append(cost)
        return c

    def deviations(self):
        return sum(k for c, k in zip(self.choices, self.costs) if c)


class Explorer:
    def __init__(self, bound, max_runs=None):
        self.bound = bound
        self.max_runs = max_runs
        self.runs = 0
        self.capped = False
        self.points_seen = 0

    def explore(self, run_fn):
        """run_fn(run) executes the system once using run.choose(); yields
        (run, result) for every explored execution (DFS, default-first)."""
        stack = [[]]
        while stack:
            prefix = stack.pop()
            if self.max_runs is not None and self.runs >= self.max_runs:
                self.capped = True
                return
            run = Run(prefix)
            result = run_fn(run)
            self.runs += 1
            if len(run.choices) < len(prefix):
                raise Divergence(
                    f"replay ended after {len(run.choices)} points, prefix had "
                    f"{len(prefix)}")
            self.points_seen += len(run.points)
            yield run, result
            dev_before = [0]
            for c, k in zip(run.choices, run.costs):
                dev_before.append(dev_before[-1] + (k if c else 0))
            # alternatives at points after the prefix (in reverse so that the
            # DFS pops the earliest deviation first)
            new = []
            for i in range(len(prefix), len(run.points)):
                n, label = run.points[i]
                if dev_before[i] + run.costs[i] > self.bound:
                    continue
                for alt in range(1, n):
                    pre = [(run.choices[j], run.points[j]) for j in range(i)]
                    pre.append((alt, (n, label)))
                    new.append(pre)
            stack.extend(reversed(new))


def vector(run):
    return [(c, label) for c, (n, label) in zip(run.choices, run.points)]
