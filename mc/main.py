"""Command line: python -m mc.main <ID> [--tier T] [--replay FILE]"""
import argparse
import os
import sys

from mc import core


def registry():
    from mc.checks import create
    reg = {}
    for pid in ("C01", "C02", "C03", "C10", "C15"):
        reg[pid] = (lambda p=pid: create.make(p))
    from mc.checks import recheck
    for pid in ("C04", "C05", "C16"):
        reg[pid] = (lambda p=pid: recheck.make(p))
    from mc.checks import editfam
    for pid in ("C06", "C07", "C17"):
        reg[pid] = (lambda p=pid: editfam.make(p))
    from mc.checks import magnet, piecelen
    reg["C11"] = lambda: magnet.make("C11")
    reg["C12"] = lambda: piecelen.make("C12")
    from mc.checks import options
    reg["C20"] = lambda: options.make("C20")
    from mc.checks import infohash
    reg["C08"] = lambda: infohash.make("C08")
    from mc.checks import readonly
    reg["C18"] = lambda: readonly.make("C18")
    from mc.checks import rebuild
    for pid in ("C13", "C14", "C19"):
        reg[pid] = (lambda p=pid: rebuild.make(p))
    from mc.checks import history
    reg["C09"] = lambda: history.make("C09")
    return reg


def main(argv=None):
    ap = argparse.ArgumentParser()
    ap.add_argument("pid")
    ap.add_argument("--tier", default=os.environ.get("VERIF_TIER", "quick"),
                    choices=["quick", "thorough"])
    ap.add_argument("--replay")
    ap.add_argument("--jobs", type=int)
    args = ap.parse_args(argv)
    seed = int(os.environ.get("VERIF_SEED", "0") or 0)
    reg = registry()
    if args.pid not in reg:
        print(f"unknown property {args.pid}", file=sys.stderr)
        return 2
    check = reg[args.pid]()
    try:
        if args.replay:
            return core.run_replay(check, args.replay)
        return core.run_check(check, args.tier, seed, args.jobs)
    except core.InfraError as e:
        print(f"INFRA-ERROR: {e}", file=sys.stderr)
        return 2
    finally:
        from mc import world
        world.cleanup_scratch()


if __name__ == "__main__":
    sys.exit(main())
