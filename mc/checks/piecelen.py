"""C12 — piece length acceptance and automatic choice: exhaustive integer ranges
and structured families, through the library, the CLI and the config file."""
import os
import shutil

from mc import core, tf, world
from mc.ref import bencode, model

MIN = 16384


def spec(x):
    """Expected outcome for an integer x: ('accept', value) | ('reject',) |
    ('either', value)."""
    if 14 <= x <= 25:
        return ("accept", 1 << x)
    if 26 <= x <= 29:
        return ("either", 1 << x)
    if x >= MIN and x & (x - 1) == 0:
        return ("accept", x)
    return ("reject",)


STRINGS = ["", " ", " 14", "14 ", "+14", "-14", "1e5", "0x10", "16_384", "²",
           "१४", "1.5", "14.0", "abc", "16384k", "١٤", "1٤", "⑭", "½", "Ⅷ",
           "14\n", "\t14", "0b1", "١٦٣٨٤", "𝟏𝟒", "16384 ", "3²"]


def string_spec(s):
    """Expected outcome for a string: plain ASCII decimal digits denote that
    integer; other strings are rejected; a string of non-ASCII decimal digits
    may be read as int() reads it or be rejected."""
    if s.isascii() and s.isdigit():
        return spec(int(s))
    if s.isdigit() or s.isdecimal() or s.isnumeric():
        try:
            v = int(s)
        except ValueError:
            return ("reject",)
        sp = spec(v)
        if sp[0] == "reject":
            return sp
        return ("either", sp[1])
    return ("reject",)


AUTO_FORMS = ["file", "dir1", "dir3", "link-file", "dir-with-link",
              "link-dir", "nested", "dir-with-linked-subdir", "file@cli",
              "dir-with-link@cli", "dir-with-linked-subdir@cli"]


def _sparse(path, n):
    os.makedirs(os.path.dirname(path), exist_ok=True)
    with open(path, "wb") as f:
        if n:
            f.seek(n - 1)
            f.write(b"\x01")


def auto_payload(parent, form, s):
    """A payload of exactly s bytes in the given on-disk form."""
    form = form.split("@")[0]
    p = os.path.join(parent, "big")
    store = os.path.join(parent, "store")
    if form == "file":
        _sparse(p, s)
    elif form == "dir1":
        _sparse(os.path.join(p, "a"), s)
    elif form == "dir3":
        _sparse(os.path.join(p, "a"), s // 2)
        _sparse(os.path.join(p, "d", "b"), s - s // 2 - 1)
        _sparse(os.path.join(p, "c"), 1)
    elif form == "nested":
        _sparse(os.path.join(p, "x", "y", "z", "a"), s)
    elif form == "link-file":
        _sparse(os.path.join(store, "real"), s)
        os.symlink(os.path.join(store, "real"), p)
    elif form == "dir-with-link":
        _sparse(os.path.join(store, "real"), s - 1)
        _sparse(os.path.join(p, "c"), 1)
        os.symlink(os.path.join(store, "real"), os.path.join(p, "a"))
    elif form == "dir-with-linked-subdir":
        _sparse(os.path.join(store, "realdir", "a"), s - 1)
        _sparse(os.path.join(p, "c"), 1)
        os.symlink(os.path.join(store, "realdir"), os.path.join(p, "sub"))
    elif form == "link-dir":
        _sparse(os.path.join(store, "realdir", "a"), s)
        os.symlink(os.path.join(store, "realdir"), p)
    return p


class PieceLenCheck:
    id = "C12"

    def __init__(self):
        self.assumptions = [
            "normalize_piece_length: every integer -1024..2^24 (quick) / "
            "..2^28 (thorough), every m*2^k (odd m < 2^12, k <= 80), every "
            "2^k +- d (d <= 64, k <= 100), decimal strings of a reduced "
            "range, catalogue of pseudo-numeric strings",
            "a falsy piece length at the creator API means 'not supplied'; "
            "floats are outside the quantifier; exponents 26..29 may go "
            "either way; non-ASCII decimal-digit strings may be read as "
            "int() reads them or rejected with the piece-length error",
            "end-to-end creates only for accepted values <= 2^24 (larger "
            "values would allocate a piece-sized buffer)",
            "get_piece_length: every size <= 2^22 (quick) / 2^26 (thorough) "
            "and c*2^e+d families up to 2^60; monotone along the sorted "
            "enumerated domain",
        ]
        self.rule = (
            "exhaustive integer intervals + structured families; state = one "
            "distinct argument value; transition = one call of the real "
            "validator / creator / CLI; oracle = arithmetic specification")

    def groups(self, tier, seed):
        gs = []
        top = 1 << (24 if tier == "quick" else 28)
        step = 1 << 20
        lo = -1024
        while lo < top:
            hi = min(top, lo + step)
            gs.append({"kind": "ints", "lo": lo, "hi": hi})
            lo = hi
        for k0 in range(0, 81, 8):
            gs.append({"kind": "mk", "k0": k0, "k1": min(81, k0 + 8)})
        for k0 in range(0, 101, 10):
            gs.append({"kind": "pm", "k0": k0, "k1": min(101, k0 + 10)})
        gs.append({"kind": "strings"})
        gs.append({"kind": "e2e", "route": "lib", "seed": seed})
        gs.append({"kind": "e2e", "route": "cli", "seed": seed})
        gs.append({"kind": "e2e", "route": "config", "seed": seed})
        top2 = 1 << (22 if tier == "quick" else 26)
        step2 = 1 << 19
        for lo in range(0, top2, step2):
            gs.append({"kind": "auto-ints", "lo": lo, "hi": lo + step2 + 1})
        gs.append({"kind": "auto-fam"})
        for creator in ("TorrentFile", "Assembler2", "Assembler3"):
            gs.append({"kind": "auto-e2e", "seed": seed, "tier": tier,
                       "creator": creator})
        return gs

    # --- validator
    def call(self, x):
        try:
            return ("ok", tf.utils.normalize_piece_length(x))
        except tf.utils.PieceLengthValueError:
            return ("plve",)
        except Exception as e:  # noqa
            return ("exc:" + type(e).__name__,)

    def judge_value(self, res, x, sp, got, where):
        res.evals += 1
        res.transitions += 1
        bad = None
        if got[0] == "ok":
            if sp[0] == "reject":
                bad = "accepted-invalid"
            elif got[1] != sp[1] or type(got[1]) is not int:
                bad = "accepted-with-wrong-value"
        elif got[0] == "plve":
            if sp[0] == "accept":
                bad = "rejected-valid"
        else:
            bad = "wrong-exception:" + got[0][4:]
        if bad:
            cls = self.classify(x)
            res.violation(f"C12|{where}|{bad}|{cls}",
                          {"kind": "value", "x": x if isinstance(x, str)
                           else str(x), "isstr": isinstance(x, str),
                           "where": where}, {"got": got, "spec": sp})
            res.outcomes[bad] += 1
        return bad

    @staticmethod
    def classify(x):
        if isinstance(x, str):
            return "string"
        if x < 14:
            return "below-14"
        if x < 30:
            return "exponent-window"
        if x < MIN:
            return "30..16383"
        return "pow2" if x & (x - 1) == 0 else "non-pow2>=16384"

    def run_group(self, g):
        res = core.Result()
        kind = g["kind"]
        if kind == "ints":
            f = tf.utils.normalize_piece_length
            PLVE = tf.utils.PieceLengthValueError
            nbad = 0
            for x in range(g["lo"], g["hi"]):
                try:
                    r = f(x)
                except PLVE:
                    r = None
                except Exception as e:  # noqa
                    r = e
                # fast path oracle
                if r is None:
                    ok = not (14 <= x <= 25 or (x >= MIN and not x & (x - 1)))
                elif isinstance(r, int) and not isinstance(r, bool):
                    if 14 <= x <= 29:
                        ok = r == 1 << x
                    else:
                        ok = x >= MIN and not x & (x - 1) and r == x
                else:
                    ok = False
                if not ok:
                    nbad += 1
                    self.judge_value(res, x, spec(x), self.call(x), "normalize")
            n = g["hi"] - g["lo"]
            res.states += n
            res.evals += n
            res.transitions += n
            res.validated += n
            res.outcomes["ok"] += n - nbad
            res.sample({"integers": [g["lo"], g["hi"]]})
            return res
        if kind in ("mk", "pm"):
            xs = set()
            if kind == "mk":
                for k in range(g["k0"], g["k1"]):
                    for m in range(1, 1 << 12, 2):
                        xs.add(m << k)
            else:
                for k in range(g["k0"], g["k1"]):
                    for d in range(-64, 65):
                        xs.add((1 << k) + d)
            for x in sorted(xs):
                b = self.judge_value(res, x, spec(x), self.call(x), "normalize")
                res.validated += 1
                res.states += 1
                if not b:
                    res.outcomes["ok"] += 1
                if -2000 < x < (1 << 22):
                    s = str(x)
                    b = self.judge_value(res, s, string_spec(s), self.call(s),
                                         "normalize-str")
                    res.validated += 1
                    if not b:
                        res.outcomes["ok"] += 1
            res.sample({kind: [g["k0"], g["k1"]]})
            return res
        if kind == "strings":
            for s in STRINGS + [str(i) for i in range(0, 40)] + \
                    ["0" + str(i) for i in range(10, 30)]:
                b = self.judge_value(res, s, string_spec(s), self.call(s),
                                     "normalize-str")
                res.states += 1
                res.validated += 1
                if not b:
                    res.outcomes["ok"] += 1
            res.sample({"strings": STRINGS[:8]})
            return res
        if kind == "e2e":
            return self.run_e2e(g, res)
        if kind == "auto-ints":
            f = tf.utils.get_piece_length
            prev = f(g["lo"])
            for s in range(g["lo"], g["hi"]):
                r = f(s)
                if not (MIN <= r <= 1 << 24 and r & (r - 1) == 0) or r < prev:
                    res.violation("C12|auto|bad-choice",
                                  {"kind": "auto", "size": s}, {"got": r,
                                                                "prev": prev})
                prev = r
            n = g["hi"] - g["lo"]
            res.states += n
            res.evals += n
            res.transitions += n
            res.validated += n
            res.outcomes["ok"] += n
            return res
        if kind == "auto-fam":
            f = tf.utils.get_piece_length
            xs = set()
            for c in (1, 3, 5, 7, 125, 250, 500, 999, 1000, 1001, 1023, 1024,
                      1025):
                for e in range(0, 51):
                    for d in range(-64, 65):
                        v = c * (1 << e) + d
                        if v >= 0:
                            xs.add(v)
            prev = MIN
            for s in sorted(xs):
                r = f(s)
                res.states += 1
                res.evals += 1
                res.transitions += 1
                res.validated += 1
                if not (MIN <= r <= 1 << 24 and r & (r - 1) == 0) or r < prev:
                    res.violation("C12|auto|bad-choice",
                                  {"kind": "auto", "size": s},
                                  {"got": r, "prev": prev})
                else:
                    res.outcomes["ok"] += 1
                prev = max(prev, r)
            return res
        if kind == "auto-e2e":
            # the payload in several on-disk forms; the choice is a function
            # of the payload's size alone, so it must be monotone over the
            # union of all forms (a form that is under-counted shows up as a
            # decrease against a smaller payload in another form).  The size
            # is taken from the metafile's own file list, so a tree that
            # leaves some entries out consistently is not blamed here.
            sizes = [0, 1, 16384000 - 1, 16384000, 16384001, 32768000,
                     32768001]
            if g.get("tier") == "thorough":
                sizes += [65536000, 65536001]
            creator = g.get("creator", "TorrentFile")
            seen = []     # (size, form, pl)
            for s in sizes:
                for form in AUTO_FORMS:
                    if s == 0 and form != "file":
                        continue
                    parent = world.fresh_dir()
                    try:
                        p = auto_payload(parent, form, s)
                    except OSError:
                        continue
                    tf.reset_process_state()
                    out = os.path.join(parent, "o.torrent")
                    ds = s
                    try:
                        if form.endswith("@cli"):
                            ver = {"TorrentFile": "1", "Assembler2": "2",
                                   "Assembler3": "3"}[creator]
                            tf.execute(["create", p, "-o", out, "--prog", "0",
                                        "--meta-version", ver])
                            with open(out, "rb") as f:
                                raw = f.read()
                        else:
                            raw = tf.create(creator, p, out, None)
                        meta = bencode.decode(raw, strict=False)
                        pl = meta[b"info"][b"piece length"]
                        # the payload as the metafile itself describes it
                        ds = sum(ln for _p, ln, pad, _l in
                                 model.payload_layout(meta)[2] if not pad)
                    except Exception as e:  # noqa
                        pl = "raised:" + type(e).__name__
                    shutil.rmtree(parent, ignore_errors=True)
                    res.states += 1
                    res.evals += 1
                    res.transitions += 1
                    res.validated += 1
                    ok = isinstance(pl, int) and MIN <= pl <= 1 << 24 and \
                        pl & (pl - 1) == 0
                    lower = [x for x in seen if x[0] <= ds and ok and
                             isinstance(x[2], int) and x[2] > pl]
                    if not ok or lower:
                        res.violation(
                            "C12|auto-e2e|bad-choice|" + form.split("@")[0],
                            {"kind": "auto-e2e", "size": s, "form": form,
                             "creator": creator},
                            {"got": pl, "smaller-payload-got-more": lower[:2]})
                    else:
                        res.outcomes["ok"] += 1
                    seen.append((ds, form, pl))
            return res
        raise ValueError(kind)

    def e2e_values(self):
        xs = set(range(-2, 71))
        for k in range(0, 41):
            xs |= {(1 << k) - 1, 1 << k, (1 << k) + 1}
        xs |= {16385, 16395, 32769, 49152, 1 << 24, (1 << 24) + 1}
        return sorted(xs)

    E2E_STRINGS = ["false", "False", "true", "abc", "auto", "none", "1e5",
                   "0x4000", "16384.0", "2**14", "15\n", " 15", "15 ", "+15",
                   "१५", "-15", "16_384"]

    def run_e2e(self, g, res):
        route = g["route"]
        seed = g["seed"]
        parent = world.fresh_dir()
        payload = os.path.join(parent, "f")
        with open(payload, "wb") as f:
            f.write(world.content(seed, 0, 20000))
        n = 0
        for x in self.e2e_values() + self.E2E_STRINGS:
            if isinstance(x, str):
                sp = string_spec(x)
                if route == "config":
                    # configparser strips surrounding whitespace itself
                    sp = string_spec(x.strip())
                if route != "lib" and x.startswith("-"):
                    continue   # argparse would read it as an option
                forms = [x]
            else:
                sp = spec(x)
                forms = [x] if route == "lib" else []
                if x >= 0:
                    forms.append(str(x))
                elif route != "lib":
                    continue
            if sp[0] != "reject" and sp[1] > (1 << 24):
                continue
            for arg in forms:
                if route == "lib" and not arg:
                    continue   # falsy = not supplied
                n += 1
                out = os.path.join(parent, f"o{n}.torrent")
                tf.reset_process_state()
                try:
                    if route == "lib":
                        tf.create("TorrentFile", payload, out, arg)
                    elif route == "cli":
                        tf.execute(["create", payload, "-o", out,
                                    "--piece-length", arg, "--prog", "0"])
                    else:
                        cfg = os.path.join(parent, f"c{n}.ini")
                        with open(cfg, "w") as f:
                            f.write(f"[config]\npiece-length = {arg}\n")
                        tf.execute(["create", "--config", "--config-path",
                                    cfg, "-o", out, "--prog", "0", payload])
                    with open(out, "rb") as f:
                        pl = bencode.decode(f.read(), strict=False)[
                            b"info"][b"piece length"]
                    got = ("ok", pl)
                except tf.utils.PieceLengthValueError:
                    got = ("plve",)
                except BaseException as e:  # noqa
                    got = ("exc:" + type(e).__name__,)
                res.states += 1
                res.validated += 1
                bad = self.judge_value(res, arg,
                                       string_spec(arg.strip() if route ==
                                                   "config" else arg)
                                       if isinstance(arg, str) else sp, got,
                                       "e2e-" + route)
                if got[0] != "ok" and os.path.exists(out):
                    res.violation(f"C12|e2e-{route}|metafile-written-despite-"
                                  "rejection", {"kind": "e2e", "x": str(arg),
                                                "route": route}, None)
                if not bad:
                    res.outcomes["ok"] += 1
        res.sample({"e2e": route, "values": n})
        return res

    def replay(self, case):
        if case["kind"] == "value":
            x = case["x"] if case["isstr"] else int(case["x"])
            sp = string_spec(x) if case["isstr"] else spec(x)
            res = core.Result()
            if case["where"].startswith("normalize"):
                self.judge_value(res, x, sp, self.call(x), case["where"])
            else:
                self.run_e2e({"route": case["where"][4:], "seed": 0}, res)
                res.violations = [v for v in res.violations
                                  if v["case"].get("x") == case["x"]]
            return [{"sig": v["sig"], "detail": v["detail"]}
                    for v in res.violations]
        res = core.Result()
        if case["kind"] == "auto-e2e":
            res = self.run_group({"kind": "auto-e2e", "seed": 0,
                                  "tier": "thorough" if case["size"] > 4e7
                                  else "quick",
                                  "creator": case.get("creator",
                                                      "TorrentFile")})
            return [{"sig": v["sig"], "detail": v["detail"]}
                    for v in res.violations
                    if v["case"]["size"] == case["size"]
                    and v["case"]["form"] == case["form"]]
        if case["kind"] == "auto":
            r = tf.utils.get_piece_length(case["size"])
            if not (MIN <= r <= 1 << 24 and r & (r - 1) == 0):
                return [{"sig": "C12|auto|bad-choice", "detail": r}]
            return []
        return []


def make(pid):
    return PieceLenCheck()
