#!/bin/sh
# run every registered quick (or $1) check; print one line per property
tier="${1:-quick}"
cd "$(dirname "$0")/.." || exit 2
rc=0
for p in C01 C02 C03 C04 C05 C06 C07 C08 C09 C10 C11 C12 C13 C14 C15 C16 C17 C18 C19 C20; do
  out=$(bin/check $p --tier "$tier" 2>&1); r=$?
  echo "$out" | grep -E "^\[|VIOLATION|KNOWN-FINDING|INFRA" | tail -3
  [ $r -ne 0 ] && { echo "$p exit=$r"; rc=1; }
done
exit $rc
