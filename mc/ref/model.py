"""Specification-side models: metafile oracles (C01/C02/C03/C15), reference
encoders for foreign metafiles, recheck model, magnet model.

`tree` always denotes the payload as {rel tuple of str: bytes}; a single-file
payload is {(): bytes}.
"""
from hashlib import sha1, sha256

from . import bencode, bep


def u(s):
    return s.encode("utf-8") if isinstance(s, str) else bytes(s)


def ceil_div(a, b):
    return -(-a // b)


# --------------------------------------------------------------------------
# structural readers


class Malformed(Exception):
    pass


def tree_leaves(ftree, prefix=()):
    """Leaves of a BEP 52 file tree in encoded order: [(path tuple of bytes,
    leaf dict)]."""
    out = []
    if not isinstance(ftree, dict):
        raise Malformed("file tree node is not a dict")
    for k, v in ftree.items():
        if not isinstance(v, dict):
            raise Malformed("file tree child is not a dict")
        if b"" in v:
            if len(v) != 1:
                raise Malformed("leaf with siblings")
            leaf = v[b""]
            if not isinstance(leaf, dict) or not isinstance(
                    leaf.get(b"length"), int):
                raise Malformed("leaf without integer length")
            out.append((prefix + (k,), leaf))
        else:
            out.extend(tree_leaves(v, prefix + (k,)))
    return out


def v1_entries(info):
    """[(path tuple of bytes, length, is_pad)] of a multi-file v1 view."""
    out = []
    files = info.get(b"files")
    if not isinstance(files, list):
        raise Malformed("files is not a list")
    for e in files:
        if not isinstance(e, dict) or not isinstance(e.get(b"length"), int) \
                or not isinstance(e.get(b"path"), list):
            raise Malformed("bad files entry")
        attr = e.get(b"attr", b"")
        out.append((tuple(e[b"path"]), e[b"length"], b"p" in attr))
    return out


def btree(tree):
    """payload tree with bytes path components"""
    return {tuple(u(c) for c in rel): data for rel, data in tree.items()}


# --------------------------------------------------------------------------
# creation oracles; each returns a list of (problem, detail)


def check_common(info, P_req):
    probs = []
    if not isinstance(info.get(b"piece length"), int):
        return [("no-piece-length", None)]
    if P_req is not None and info[b"piece length"] != P_req:
        probs.append(("piece-length-not-as-requested",
                      (info[b"piece length"], P_req)))
    return probs


def check_v1_plain(info, tree, P_req):
    """C01."""
    probs = check_common(info, P_req)
    if probs and probs[0][0] == "no-piece-length":
        return probs
    P = info[b"piece length"]
    pieces = info.get(b"pieces")
    if not isinstance(pieces, bytes) or len(pieces) % 20:
        return probs + [("pieces-not-20-multiple", None)]
    bt = btree(tree)
    if () in bt:
        data = bt[()]
        if b"files" in info:
            probs.append(("single-file-has-files", None))
        if info.get(b"length") != len(data):
            probs.append(("single-length-wrong", (info.get(b"length"), len(data))))
        if pieces != bep.pieces_v1(data, P):
            probs.append(("single-pieces-mismatch", len(data)))
        return probs
    if b"length" in info:
        probs.append(("dir-has-length", None))
    try:
        ents = v1_entries(info)
    except Malformed as e:
        return probs + [("malformed-files:" + str(e), None)]
    if any(p for _, _, p in ents):
        probs.append(("unexpected-pad-entry", None))
    listed = [e[0] for e in ents if not e[2]]
    if sorted(listed) != sorted(bt):
        probs.append(("file-list-differs-from-disk",
                      (sorted(listed), sorted(bt))))
        return probs
    for path, length, pad in ents:
        if not pad and length != len(bt[path]):
            probs.append(("file-length-wrong", (path, length, len(bt[path]))))
    stream = b"".join(
        bytes(length) if pad else bt[path] for path, length, pad in ents)
    if pieces != bep.pieces_v1(stream, P):
        probs.append(("pieces-mismatch", [e[1] for e in ents]))
    if len(pieces) // 20 != ceil_div(len(stream), P):
        probs.append(("piece-count-wrong", None))
    return probs


def check_v1_aligned(info, tree, P_req):
    """C15."""
    probs = check_common(info, P_req)
    if probs and probs[0][0] == "no-piece-length":
        return probs
    P = info[b"piece length"]
    pieces = info.get(b"pieces")
    if not isinstance(pieces, bytes) or len(pieces) % 20:
        return probs + [("pieces-not-20-multiple", None)]
    bt = btree(tree)
    if () in bt:
        data = bt[()]
        if info.get(b"length") != len(data) or b"files" in info:
            probs.append(("single-length-wrong", (info.get(b"length"), len(data))))
        if pieces != bep.pieces_v1(data, P):
            probs.append(("single-not-hashed-as-file-alone", len(data)))
        return probs
    try:
        ents = v1_entries(info)
    except Malformed as e:
        return probs + [("malformed-files:" + str(e), None)]
    listed = [e[0] for e in ents if not e[2]]
    if sorted(listed) != sorted(bt):
        return probs + [("file-list-differs-from-disk", None)]
    pos = 0
    stream = bytearray()
    for path, length, pad in ents:
        if pad:
            gap = (-pos) % P
            if length != gap or length <= 0:
                probs.append(("pad-length-not-gap", (length, gap, pos)))
            stream += bytes(length)
        else:
            data = bt[path]
            if length != len(data):
                probs.append(("file-length-wrong", (path, length, len(data))))
            if length > 0 and pos % P:
                probs.append(("file-not-on-boundary", (path, pos)))
            stream += data
        pos += length
    if pieces != bep.pieces_v1(bytes(stream), P):
        probs.append(("pieces-mismatch", [e[1] for e in ents]))
    if len(pieces) // 20 != ceil_div(pos, P):
        probs.append(("lengths-do-not-account-for-pieces",
                      (pos, len(pieces) // 20)))
    return _dedup(probs)


def _dedup(probs):
    seen, out = set(), []
    for p, d in probs:
        if p not in seen:
            seen.add(p)
            out.append((p, d))
    return out


def check_v2(meta, tree, P_req, B, name):
    """C02: file tree, roots, piece layers."""
    info = meta[b"info"]
    probs = check_common(info, P_req)
    if probs and probs[0][0] == "no-piece-length":
        return probs
    P = info[b"piece length"]
    bt = btree(tree)
    ftree = info.get(b"file tree")
    try:
        leaves = tree_leaves(ftree)
    except Malformed as e:
        return probs + [("malformed-file-tree:" + str(e), None)]
    if () in bt:
        expect = {(u(name),): bt[()]}
    else:
        expect = bt
    if sorted(p for p, _ in leaves) != sorted(expect):
        return probs + [("file-tree-differs-from-disk",
                         (sorted(p for p, _ in leaves), sorted(expect)))]
    want_layers = {}
    for path, leaf in leaves:
        data = expect[path]
        if leaf[b"length"] != len(data):
            probs.append(("leaf-length-wrong", (path, leaf[b"length"], len(data))))
            continue
        root, layer = bep.v2_file(data, P, B)
        if not data:
            if b"pieces root" in leaf:
                probs.append(("empty-file-has-root", path))
            continue
        if leaf.get(b"pieces root") != root:
            probs.append(("pieces-root-wrong", (path, len(data))))
        if len(data) > P:
            want_layers[root] = layer
    layers = meta.get(b"piece layers")
    if not isinstance(layers, dict):
        return probs + [("no-piece-layers-dict", None)]
    got = dict(layers)
    if got != want_layers:
        if set(got) - set(want_layers):
            probs.append(("piece-layers-extra-entry", len(got)))
        if set(want_layers) - set(got):
            probs.append(("piece-layers-missing-entry", len(got)))
        for k in set(got) & set(want_layers):
            if got[k] != want_layers[k]:
                probs.append(("piece-layer-wrong",
                              (len(got[k]) // 32, len(want_layers[k]) // 32)))
    return _dedup(probs)


def check_hybrid(meta, tree, P_req, B, name):
    """C03: v1 view and v2 view describe the same payload."""
    info = meta[b"info"]
    probs = check_common(info, P_req)
    if probs and probs[0][0] == "no-piece-length":
        return probs
    P = info[b"piece length"]
    pieces = info.get(b"pieces")
    if not isinstance(pieces, bytes) or len(pieces) % 20:
        return probs + [("pieces-not-20-multiple", None)]
    bt = btree(tree)
    try:
        leaves = tree_leaves(info.get(b"file tree"))
    except Malformed as e:
        return probs + [("malformed-file-tree:" + str(e), None)]
    if () in bt:
        data = bt[()]
        if b"files" in info:
            probs.append(("single-file-has-files", None))
        if info.get(b"length") != len(data):
            probs.append(("single-length-wrong", (info.get(b"length"), len(data))))
        if pieces != bep.pieces_v1(data, P):
            probs.append(("single-v1-stream-not-file-alone", len(data) % P != 0))
        return probs
    try:
        ents = v1_entries(info)
    except Malformed as e:
        return probs + [("malformed-files:" + str(e), None)]
    nonpad = [(p, ln) for p, ln, pad in ents if not pad]
    if nonpad != [(p, leaf[b"length"]) for p, leaf in leaves]:
        probs.append(("files-differ-from-tree-leaves", None))
    if sorted(p for p, _ in nonpad) != sorted(bt):
        return probs + [("file-list-differs-from-disk", None)]
    pos = 0
    stream = bytearray()
    for path, length, pad in ents:
        if pad:
            stream += bytes(length)
        else:
            data = bt[path]
            if length != len(data):
                probs.append(("file-length-wrong", (path, length, len(data))))
            if length > 0 and pos % P:
                probs.append(("file-not-on-boundary", (path, pos)))
            stream += data
        pos += length
    if pieces != bep.pieces_v1(bytes(stream), P):
        probs.append(("pieces-mismatch", [e[1] for e in ents]))
    return _dedup(probs)


# --------------------------------------------------------------------------
# reference encoders (independent specification-conformant metafiles)


def ordered_v1(tree):
    return sorted(tree.items(), key=lambda kv: tuple(u(c) for c in kv[0]))


def ordered_v2(tree):
    """Order of the leaves of the canonical file tree = component-wise raw-byte
    order, which for a prefix-free set of paths is tuple order."""
    return ordered_v1(tree)


def _file_tree(tree, P, B, name, single):
    ft = {}
    layers = {}
    items = [((name,), tree[()])] if single else ordered_v2(tree)
    for rel, data in items:
        node = ft
        for comp in rel[:-1]:
            node = node.setdefault(u(comp), {})
        leaf = {b"length": len(data)}
        if data:
            root, layer = bep.v2_file(data, P, B)
            leaf[b"pieces root"] = root
            if len(data) > P:
                layers[root] = layer
        node[u(rel[-1])] = {b"": leaf}
    return ft, layers


def ref_v1(name, tree, P, mode="plain"):
    """mode: plain | perm (files listed in reverse order) | bep47 (pads between
    files, none after the last)."""
    info = {b"name": u(name), b"piece length": P}
    if () in tree:
        data = tree[()]
        info[b"length"] = len(data)
        info[b"pieces"] = bep.pieces_v1(data, P)
        return {b"info": info}
    items = ordered_v1(tree)
    if mode == "perm":
        items = items[::-1]
    files = []
    stream = bytearray()
    for i, (rel, data) in enumerate(items):
        files.append({b"length": len(data), b"path": [u(c) for c in rel]})
        stream += data
        if mode in ("bep47", "bep47x2") and i + 1 < len(items):
            # bep47x2: files aligned to a multiple of the piece length that is
            # coarser than one piece (pad entries longer than the gap)
            gap = (-len(stream)) % (P if mode == "bep47" else 2 * P)
            if gap:
                files.append({b"attr": b"p", b"length": gap,
                              b"path": [b".pad", str(gap).encode()]})
                stream += bytes(gap)
    info[b"files"] = files
    info[b"pieces"] = bep.pieces_v1(bytes(stream), P)
    return {b"info": info}


def ref_v2(name, tree, P, B):
    single = () in tree
    ft, layers = _file_tree(tree, P, B, name, single)
    info = {b"name": u(name), b"piece length": P, b"meta version": 2,
            b"file tree": ft}
    return {b"info": info, b"piece layers": layers}


def ref_hybrid(name, tree, P, B, trail=False):
    single = () in tree
    ft, layers = _file_tree(tree, P, B, name, single)
    info = {b"name": u(name), b"piece length": P, b"meta version": 2,
            b"file tree": ft}
    if single:
        data = tree[()]
        info[b"length"] = len(data)
        info[b"pieces"] = bep.pieces_v1(data, P)
        return {b"info": info, b"piece layers": layers}
    items = ordered_v2(tree)
    files = []
    stream = bytearray()
    for i, (rel, data) in enumerate(items):
        files.append({b"length": len(data), b"path": [u(c) for c in rel]})
        stream += data
        last = i + 1 == len(items)
        gap = (-len(stream)) % P
        if gap and (trail or not last):
            files.append({b"attr": b"p", b"length": gap,
                          b"path": [b".pad", str(gap).encode()]})
            stream += bytes(gap)
    info[b"files"] = files
    info[b"pieces"] = bep.pieces_v1(bytes(stream), P)
    return {b"info": info, b"piece layers": layers}


# --------------------------------------------------------------------------
# recheck model


def meta_version_of(info):
    if b"meta version" in info:
        return 3 if b"pieces" in info else 2
    return 1


def payload_layout(meta):
    """[(path tuple of bytes under the root, or () for single file, length,
    is_pad, v2-leaf or None)] in metafile order, for the verification view the
    metafile's version uses (v1: files list; v2/hybrid: file tree)."""
    info = meta[b"info"]
    ver = meta_version_of(info)
    name = info[b"name"]
    if ver == 1:
        if b"files" not in info:
            return ver, True, [((), info[b"length"], False, None)]
        return ver, False, [(p, ln, pad, None) for p, ln, pad in v1_entries(info)]
    leaves = tree_leaves(info[b"file tree"])
    single = (b"files" not in info and len(leaves) == 1
              and leaves[0][0] == (name,)) or b"length" in info
    if single:
        return ver, True, [((), leaves[0][1][b"length"], False, leaves[0][1])]
    return ver, False, [(p, leaf[b"length"], False, leaf) for p, leaf in leaves]


def recheck_model(meta, disk, B):
    """disk: {path tuple of bytes (or ()): bytes}; absent => missing file.
    Returns (percentage, [(ok, nbytes)], total)."""
    info = meta[b"info"]
    P = info[b"piece length"]
    ver, _single, layout = payload_layout(meta)
    verdicts = []
    if ver == 1:
        stream = bytearray()
        payload = 0
        for path, length, pad, _ in layout:
            data = b"" if pad else disk.get(path, b"")
            data = data[:length]
            stream += data + bytes(length - len(data))
        payload = len(stream)
        pieces = info[b"pieces"]
        for n, off in enumerate(range(0, len(stream), P)):
            chunk = bytes(stream[off:off + P])
            ok = sha1(chunk).digest() == pieces[20 * n:20 * n + 20]
            verdicts.append((ok, len(chunk)))
        total = payload
    else:
        layers = meta.get(b"piece layers", {})
        total = 0
        for path, length, _pad, leaf in layout:
            total += length
            if length == 0:
                continue
            data = disk.get(path, b"")[:length]
            data = data + bytes(length - len(data))
            root = leaf.get(b"pieces root")
            got = bep.v2_piece_hashes(data, P, B)
            if length > P:
                rec = layers.get(root, b"")
                want = [rec[i:i + 32] for i in range(0, len(rec), 32)]
            else:
                want = [root]
            for n, h in enumerate(got):
                size = min(P, length - n * P)
                ok = n < len(want) and want[n] == h
                verdicts.append((ok, size))
    good = sum(sz for ok, sz in verdicts if ok)
    pct = (good / total * 100) if total else 0
    return pct, verdicts, total


# --------------------------------------------------------------------------
# magnet model


def info_span(raw):
    top = bencode.decode(raw, strict=False)
    s, e = top.spans[b"info"]
    return top, bytes(raw[s:e])


def magnet_model(raw, version=0):
    """Expected (xt set, dn, tr list, ws list) with values as str."""
    top, span = info_span(raw)
    info = top[b"info"]
    has_v1 = b"pieces" in info or b"meta version" not in info
    has_v2 = b"meta version" in info
    xt = set()
    if has_v1 and (version in (0, 1, 3) or not has_v2):
        xt.add("urn:btih:" + sha1(span).hexdigest())
    if has_v2 and (version in (0, 2, 3) or not has_v1):
        xt.add("urn:btmh:1220" + sha256(span).hexdigest())
    dn = info[b"name"]
    tr = []
    if b"announce-list" in top:
        tr = [url for tier in top[b"announce-list"] for url in tier]
    elif b"announce" in top:
        tr = [top[b"announce"]]
    ws = []
    if b"url-list" in top:
        ul = top[b"url-list"]
        ws = [ul] if isinstance(ul, bytes) else list(ul)
    return xt, dn, tr, ws
