"""A pristine fork server: a process forked before any torrentfile operation has
run; every request is served in a fresh fork of it, so each request sees a
process image that has imported torrentfile and done nothing else."""
import multiprocessing
import os
import pickle
import traceback


class Zygote:
    def __init__(self, handler):
        self.parent_conn, child_conn = multiprocessing.Pipe()
        self.pid = os.fork()
        if self.pid == 0:
            try:
                self.parent_conn.close()
                _serve(child_conn, handler)
            finally:
                os._exit(0)
        child_conn.close()

    def call(self, req):
        self.parent_conn.send(req)
        status, val = pickle.loads(self.parent_conn.recv_bytes())
        if status != "ok":
            raise RuntimeError("zygote child failed:\n" + val)
        return val

    def close(self):
        try:
            self.parent_conn.close()
            os.waitpid(self.pid, 0)
        except OSError:
            pass


def _serve(conn, handler):
    while True:
        try:
            req = conn.recv()
        except (EOFError, OSError):
            return
        r, w = os.pipe()
        pid = os.fork()
        if pid == 0:
            os.close(r)
            try:
                res = ("ok", handler(req))
            except BaseException:  # noqa
                res = ("err", traceback.format_exc())
            try:
                with os.fdopen(w, "wb") as f:
                    pickle.dump(res, f)
            finally:
                os._exit(0)
        os.close(w)
        with os.fdopen(r, "rb") as f:
            data = f.read()
        os.waitpid(pid, 0)
        if not data:
            data = pickle.dumps(("err", "child died without an answer"))
        conn.send_bytes(data)
