#!/bin/sh
# run the repository's unedited suite on /repo (or $1) and print the verdict
cd "${1:-/repo}" || exit 2
/venv/bin/python -m pytest -q -p no:cacheprovider --timeout=900 -q > /dev/shm/suite.$$.log 2>&1
rc=$?
tail -3 /dev/shm/suite.$$.log | tr '\n' ' '
echo " rc=$rc"
rm -f /dev/shm/suite.$$.log
exit $rc
