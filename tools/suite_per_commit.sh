#!/bin/sh
# run the unedited suite on every commit of /repo in <range> (scratch worktrees under /dev/shm)
range="${1:-983c460..HEAD}"
for c in $(git -C /repo rev-list --reverse "$range"); do
  d=/dev/shm/wt_$c
  git -C /repo worktree add -q --detach "$d" "$c" || exit 2
  (cd "$d" && /venv/bin/python -m pytest -q -p no:cacheprovider --timeout=900 -q -x > "$d.log" 2>&1; echo "$c rc=$? $(tail -1 "$d.log")")
  git -C /repo worktree remove --force "$d"; rm -f "$d.log"
done
