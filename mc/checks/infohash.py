"""C08 — the info dictionary depends only on payload, piece length, version and
info options.  Engine E2: configuration axes (deviation bounded) and every
permutation of every directory listing call (full product at the default
configuration) explored on the real creators."""
import datetime as _dt
import itertools
import math
import os
import shutil

from mc import core, e2, envcreate, envrun, seams, tf, world
from mc.ref import bencode

P0 = 16384
NAME = world.ROOT_NAME

PAYLOADS = {
    # `d` holds two names that differ only in case; `D` vs `d` likewise
    "dir": [(("a",), 20000), (("d", "x"), P0 + 1), (("d", "X"), 5),
            (("D",), 2 * P0)],
    "file": [((), 2 * P0 + 7)],
    # names that tie under other popular sort keys: canonically equivalent
    # spellings (NFC / NFD), equal numeric value (f1 / f01)
    # directories below the root whose names repeat / end in the root's name
    "dir-nest": [(("top", "x"), 20000), (("live top", "top", "y"), P0 + 1),
                 (("d", "z"), 5)],
    # a name containing a backslash next to the real path it would spell
    # with the other separator
    "dir-sep": [(("a\\b",), 20000), (("a", "b"), P0 + 1), (("d", "x"), 5),
                (("a b",), 9), (("a", " b"), 11)],
    # mostly-zero files with data islands on 4 KiB pages: stored densely at
    # the original location, with holes in the copy
    "dir-holes": [(("a",), 100000, "holesA"), (("d", "x"), 70000, "holesB"),
                  (("e",), 5)],
    "dir-eq": [(("caf\u00e9.bin",), 20000), (("cafe\u0301.bin",), P0 + 1),
               (("d", "f01"), 5), (("d", "f1"), 7)],
}

# process-environment axis: payloads whose names are not ASCII (what an ASCII
# filesystem encoding hands the library surrogate-escaped) next to the plain
# directory payload; (root name, entries)
ENV_PAYLOADS = {
    "dir-nonascii": ("données", [(("café.dat",), 20000),
                                      (("d", "ü.bin"), P0 + 1),
                                      (("plain.txt",), 5),
                                      (("日本", "語.txt"), 7)]),
    "file-nonascii": ("café.dat", [((), 2 * P0 + 7)]),
    "dir": (NAME, PAYLOADS["dir"]),
}

SPELL_DIR = ["abs", "rel", "./rel", "rel/", "rel//", "rel/.", "a//rel",
             "rel/sub/..", "x/../rel", ".", "..", "abs/", "via-linked-parent",
             "linked-root", "rel-via-linked-parent"]
SPELL_FILE = ["abs", "rel", "./rel", "a//rel", "x/../rel", "via-linked-parent",
              "linked-root"]

AXES = {
    "spelling": None,  # filled per payload
    "cwd": ["parent", "root-or-sub", "unrelated"],
    "location": ["original", "copy"],
    "announce": [None, ["http://t1/a"], ["http://t1/a", "http://t2/a"]],
    "url_list": [None, ["http://w1/"], ["http://w1/", "http://w2/"]],
    "httpseeds": [None, ["http://h1/"], ["http://h1/", "http://h2/"]],
    "outfile": ["explicit", "dir/", "default", "inside-payload"],
    "progress": [0, 1, 2, "cli", "cli-q", "cli-v"],
    "clock": [1, 10 ** 9, 2 ** 31 + 5],
    "width": [80, 20],
}
AXIS_ORDER = list(AXES)
HASH_NEUTRAL = {"spelling", "cwd", "location", "outfile", "progress", "clock",
                "width"}

CREATORS = [("TorrentFile", {}), ("TorrentFile+align", {"align": True}),
            ("Assembler2", {}), ("Assembler3", {}), ("TorrentFileV2", {}),
            ("TorrentFileHybrid", {})]
CLI_VERSION = {"TorrentFile": "1", "TorrentFile+align": "1",
               "Assembler2": "2", "Assembler3": "3"}


class FakeDatetime:
    value = 1

    @classmethod
    def now(cls):
        return _dt.datetime.fromtimestamp(cls.value)

    @staticmethod
    def timestamp(d):
        return _dt.datetime.timestamp(d)


def resolve_path(spelling, cwdkind, L, payload_kind):
    """Return (cwd, path string) or None if the combination is infeasible."""
    R = os.path.join(L, NAME)
    Lname = os.path.basename(L)
    lp = os.path.join(os.path.dirname(L), "lnk-parent")
    need = {
        # the payload reached through a symbolic link: a linked ancestor
        # directory, and a link that carries the payload's own name
        "via-linked-parent": (None, os.path.join(lp, NAME)),
        "rel-via-linked-parent": (os.path.dirname(L),
                                  os.path.join("lnk-parent", NAME)),
        "linked-root": (None, os.path.join(os.path.dirname(L), "aliases",
                                           NAME)),
        "abs": (None, R), "abs/": (None, R + os.sep),
        "rel": (L, NAME), "./rel": (L, "./" + NAME), "rel/": (L, NAME + "/"),
        "rel//": (L, NAME + "//"), "rel/.": (L, NAME + "/."),
        "a//rel": (os.path.dirname(L), Lname + "//" + NAME),
        "rel/sub/..": (L, NAME + "/d/.."),
        "x/../rel": (L, "x/../" + NAME),
        ".": (R, "."), "..": (os.path.join(R, "d"), ".."),
    }[spelling]
    cwd, p = need
    want = {"parent": L, "root-or-sub": R if payload_kind.startswith("dir")
            else L, "unrelated": os.path.join(os.path.dirname(L), "elsewhere")
            }[cwdkind]
    if cwd is None:
        return want, p
    if cwdkind != "parent":
        return None   # this spelling dictates its own cwd
    return cwd, p


class InfoHashCheck:
    id = "C08"

    def __init__(self):
        self.assumptions = [
            "payloads: one directory (3 entries + a subdirectory with 2 whose "
            "names differ only in case, so 3! x 2! orders per traversal) and "
            "one single file; all six creator configurations; output "
            "locations include a file inside the payload directory",
            "configuration axes (path spelling, cwd, location, trackers, web "
            "seeds, http seeds, outfile form, progress / CLI / -q, clock, "
            "terminal width) explored with at most 2 (quick) / 3 (thorough) "
            "simultaneous non-default values",
            "directory listing order: every permutation of every "
            "os.listdir/os.scandir call, full product at the default "
            "configuration, one permuted call combined with each single axis "
            "deviation",
            "every execution on a fresh copy of the payload under a path "
            "never used before in the process",
            "process environment: every creator configuration (library "
            "progress 0/1, command line --prog 0 / default) on a directory "
            "and a single file with non-ASCII names and on the plain "
            "directory, in a child interpreter under every member of "
            "envrun.ENVS (terminal widths, -O, ASCII filesystem encoding / "
            "POSIX locale, dead stdouts, removed cwd, -W error, debug switch, "
            "recursion / descriptor / file-size limits, umasks, no HOME, time "
            "zone, small io buffer); reading: in every environment the info "
            "dictionary equals the one made in the harness's own (UTF-8) "
            "process and info.name is the on-disk base name, or no metafile "
            "is written -- a refusal is not judged (except in the default "
            "environment)",
        ]
        self.rule = (
            "E2 stateless exploration: choice points = configuration axes "
            "(cost 1) and listing permutations (cost 0 at default "
            "configuration); state = one choice vector; transition = one "
            "create on the real code; oracle = info bytes identical to the "
            "default run and name = real base name; whole file minus creation "
            "date identical when only hash-neutral axes differ")

    def groups(self, tier, seed):
        gs = []
        for pk in PAYLOADS:
            for cname, _ in CREATORS:
                gs.append({"payload": pk, "creator": cname, "seed": seed,
                           "tier": tier})
        for name in envrun.ENVS:
            gs.append({"kind": "env", "env": name, "seed": seed,
                       "tier": tier})
        return gs

    # ------------------------------------------------- environment axis
    def run_env(self, g):
        res = core.Result()
        seed, envname = g["seed"], g["env"]
        sb = world.fresh_dir("c8env_")
        ops, metas, base = [], {}, {}
        for pk, (rootname, entries) in ENV_PAYLOADS.items():
            parent = os.path.join(sb, pk)
            os.makedirs(parent)
            files = [(e[0], world.content(seed, e[2] if len(e) > 2 else i,
                                          e[1]))
                     for i, e in enumerate(entries)]
            path = world.materialize(files, parent, name=rootname)
            outdir = os.path.join(sb, "out-" + pk)
            os.mkdir(outdir)
            for cname, ckw in CREATORS:
                creator = cname.split("+")[0]
                # the reference observation: the same create in the harness's
                # own process (UTF-8 everywhere, no terminal)
                tf.reset_process_state()
                raw0 = tf.create(creator, path,
                                 os.path.join(outdir, cname + ".base"), P0,
                                 **ckw)
                m0 = bencode.decode(raw0, strict=False)
                base[(pk, cname)] = bencode.encode(bencode.plain(m0[b"info"]))
                if m0[b"info"].get(b"name") != rootname.encode("utf-8"):
                    res.violation(f"C08|{cname}|{pk}|name-not-base-name|"
                                  "default", {"kind": "env", "env": envname,
                                              "seed": seed, "tier": g["tier"],
                                              "op": "base"},
                                  m0[b"info"].get(b"name"))
                for pr in (0, 1):
                    oid = f"{pk}/{cname}/lib{pr}"
                    of = os.path.join(outdir, f"{cname}-lib{pr}.torrent")
                    ops.append(envcreate.lib_op(oid, creator, path, of, P0,
                                                pr, ckw))
                    metas[oid] = (pk, cname)
                if cname in CLI_VERSION:
                    for tag, extra in (("cli0", ["--prog", "0"]), ("cli", [])):
                        oid = f"{pk}/{cname}/{tag}"
                        of = os.path.join(outdir, f"{cname}-{tag}.torrent")
                        argv = ["create", {"hex": envcreate.hexpath(path)},
                                "-o", {"hex": envcreate.hexpath(of)},
                                "--meta-version", CLI_VERSION[cname],
                                "--piece-length", str(P0)] + extra
                        if ckw.get("align"):
                            argv.append("--align")
                        ops.append(envcreate.cli_op(oid, argv, of))
                        metas[oid] = (pk, cname)
        recs, rep = envcreate.run_ops(envname, ops)
        res.states += 1
        res.extra["env_children"] += 1
        if envname != "default":
            res.extra["nontrivial"] += 1
        if not rep["report"]:
            res.outcomes[f"env:{envname}/child-did-not-report"] += 1
            if envname == "default":
                raise core.InfraError(
                    "the default-environment child did not report: " +
                    str(rep.get("err"))[-300:])
        for op in ops:
            oid = op["id"]
            pk, cname = metas[oid]
            r = recs.get(oid)
            res.transitions += 1
            res.evals += 1
            case = {"kind": "env", "env": envname, "seed": seed,
                    "tier": g["tier"], "op": oid}
            if r is None:
                res.outcomes[f"env:{envname}/not-reached"] += 1
                continue
            raw = r.get("raw")
            outcome = r["outcome"].split(":")[0]
            prob = None
            if raw is None:
                if envname == "default":
                    prob = "create-failed"
            else:
                res.validated += 1
                m = info = None
                try:
                    m = bencode.decode(raw, strict=False)
                    info = bencode.encode(bencode.plain(m[b"info"]))
                except Exception as e:  # noqa
                    prob = "metafile-unreadable:" + type(e).__name__
                if info is not None and info != base[(pk, cname)]:
                    b0 = bencode.plain(bencode.decode(base[(pk, cname)]))
                    i1 = bencode.plain(m[b"info"])
                    diff = sorted(k.decode("utf-8", "replace")
                                  for k in set(i1) | set(b0)
                                  if i1.get(k) != b0.get(k))
                    prob = "info-differs:" + "+".join(diff)
            res.outcomes[
                f"env:{envname}/{outcome}/"
                f"{'no-metafile' if raw is None else prob or 'ok'}"] += 1
            if prob:
                res.violation(f"C08|{cname}|{pk}|{prob}|env:{envname}", case,
                              {"op": oid, "outcome": r["outcome"],
                               "msg": r.get("msg")})
        res.sample({"kind": "env", "env": envname, "ops": len(ops),
                    "reported": rep["report"]})
        shutil.rmtree(sb, ignore_errors=True)
        return res

    def one_run(self, run, g, base):
        pk, cname, seed = g["payload"], g["creator"], g["seed"]
        kw = dict(dict(CREATORS)[cname])
        creator = cname.split("+")[0]
        spells = SPELL_DIR if pk.startswith("dir") else SPELL_FILE
        vals = {}
        ndev = 0
        for ax in AXIS_ORDER:
            options = spells if ax == "spelling" else AXES[ax]
            c = run.choose(len(options), "axis:" + ax, cost=1)
            vals[ax] = options[c]
            ndev += 1 if c else 0
        if vals["progress"] in ("cli", "cli-q", "cli-v") and \
                cname not in CLI_VERSION:
            return {"skip": "no CLI route for class creator", "vals": vals}
        # fresh sandbox
        sb = world.fresh_dir("c8_")
        L = os.path.join(sb, "loc", "here")
        if vals["location"] == "copy":
            L = os.path.join(sb, "other", "deeper", "place")
        os.makedirs(L)
        os.makedirs(os.path.join(os.path.dirname(L), "elsewhere"),
                    exist_ok=True)
        os.makedirs(os.path.join(L, "x"))
        files = [(e[0], world.content(seed, e[2] if len(e) > 2 else i, e[1]))
                 for i, e in enumerate(PAYLOADS[pk])]
        world.materialize(files, L, sparse=vals["location"] == "copy")
        os.symlink(L, os.path.join(os.path.dirname(L), "lnk-parent"))
        os.makedirs(os.path.join(os.path.dirname(L), "aliases"))
        os.symlink(os.path.join(L, NAME),
                   os.path.join(os.path.dirname(L), "aliases", NAME))
        rp = resolve_path(vals["spelling"], vals["cwd"], L, pk)
        if rp is None:
            return {"skip": "infeasible spelling x cwd", "vals": vals}
        cwd, pathstr = rp
        outdir = os.path.join(sb, "out")
        os.mkdir(outdir)
        if vals["outfile"] == "explicit":
            outarg = os.path.join(outdir, "o.torrent")
            expect = outarg
        elif vals["outfile"] == "dir/":
            outarg = outdir + os.sep
            expect = None
        elif vals["outfile"] == "inside-payload":
            if not pk.startswith("dir"):
                return {"skip": "no inside for a single file", "vals": vals}
            outarg = os.path.join(L, NAME, "d", "out.torrent")
            expect = outarg
        else:
            outarg = None
            expect = None
        before = set(self._torrents(sb))

        def chooser(path, names):
            k = len(names)
            if k <= 1:
                return names
            perms = list(itertools.permutations(names))
            rel = os.path.relpath(path, L)
            c = run.choose(len(perms), f"listdir:{rel}:{k}",
                           cost=0 if ndev == 0 else 1)
            return list(perms[c])

        tf.reset_process_state()
        FakeDatetime.value = vals["clock"]
        old_dt = tf.torrent.datetime
        old_ts = shutil.get_terminal_size
        oldcwd = os.getcwd()
        tf.torrent.datetime = FakeDatetime
        shutil.get_terminal_size = lambda *a, **k: os.terminal_size(
            (vals["width"], 24))
        os.chdir(cwd)
        err = None
        try:
            with seams.ListingSeam(chooser, under=os.path.realpath(
                    os.path.join(L, NAME))):
                if vals["progress"] in ("cli", "cli-q", "cli-v"):
                    argv = {"cli-q": ["-q"], "cli-v": ["-v"]}.get(
                        vals["progress"], [])
                    argv += ["create", pathstr, "--meta-version",
                             CLI_VERSION[cname], "--piece-length", str(P0)]
                    if kw.get("align"):
                        argv.append("--align")
                    if outarg:
                        argv += ["-o", outarg]
                    for key, flag in (("announce", "--announce"),
                                      ("url_list", "--web-seed"),
                                      ("httpseeds", "--http-seed")):
                        if vals[key]:
                            argv += [flag] + vals[key]
                    tf.execute(argv)
                else:
                    for key in ("announce", "url_list", "httpseeds"):
                        if vals[key]:
                            kw[key] = list(vals[key])
                    with tf.quiet():
                        t = tf.CREATORS[creator](
                            path=pathstr, piece_length=P0, outfile=outarg,
                            progress=vals["progress"], **kw)
                        t.write()
        except BaseException as e:  # noqa
            err = type(e).__name__ + ":" + str(e)[:80]
        finally:
            os.chdir(oldcwd)
            tf.torrent.datetime = old_dt
            shutil.get_terminal_size = old_ts
        if err:
            return {"error": err, "vals": vals}
        new = [p for p in self._torrents(sb) if p not in before]
        if expect is None:
            if len(new) != 1:
                return {"error": f"expected one new metafile, found {len(new)}",
                        "vals": vals}
            expect = new[0]
        try:
            with open(expect, "rb") as f:
                raw = f.read()
        except OSError as e:
            return {"error": "no metafile: " + type(e).__name__, "vals": vals}
        shutil.rmtree(sb, ignore_errors=True)
        return {"raw": raw, "vals": vals}

    @staticmethod
    def _torrents(sb):
        out = []
        for dp, _d, fs in os.walk(sb):
            for n in fs:
                if n.endswith(".torrent"):
                    out.append(os.path.join(dp, n))
        return out

    def run_group(self, g):
        if g.get("kind") == "env":
            return self.run_env(g)
        res = core.Result()
        bound = 2 if g["tier"] == "quick" else 3
        ex = e2.Explorer(bound, max_runs=400000)
        base = {}
        sigs_seen = {}
        for run, r in ex.explore(lambda run: self.one_run(run, g, base)):
            if "skip" in r:
                res.extra["infeasible_or_inapplicable_vectors"] += 1
                continue
            res.states += 1
            res.transitions += 1
            res.evals += 1
            res.validated += 1
            vals = r["vals"]
            dev_axes = [ax for ax in AXIS_ORDER if vals[ax] != (
                (SPELL_DIR if g["payload"].startswith("dir") else SPELL_FILE)[0]
                if ax == "spelling" else AXES[ax][0])]
            listing_dev = any(c for c, (n, lab) in zip(run.choices, run.points)
                              if lab.startswith("listdir"))
            case = {"group": {k: g[k] for k in ("payload", "creator", "seed",
                                                "tier")},
                    "vector": [[c, list(p)] for c, p in
                               zip(run.choices, run.points)]}
            what = "+".join(dev_axes + (["listing"] if listing_dev else [])) \
                or "default"
            if "error" in r:
                res.violation(f"C08|{g['creator']}|{g['payload']}|create-failed"
                              f"|{what}", case, r["error"])
                res.outcomes["create-failed"] += 1
                continue
            m = bencode.decode(r["raw"], strict=False)
            info = bencode.encode(bencode.plain(m[b"info"]))
            whole = bencode.plain(m)
            whole.pop(b"creation date", None)
            whole_key = bencode.encode(whole)
            if not base:
                base["info"] = info
                base["whole"] = whole_key
                if m[b"info"].get(b"name") != NAME.encode():
                    res.violation(f"C08|{g['creator']}|{g['payload']}|"
                                  "name-not-base-name|default", case,
                                  m[b"info"].get(b"name"))
                res.sample({"creator": g["creator"], "payload": g["payload"],
                            "default_vector": e2.vector(run)})
                continue
            prob = None
            if info != base["info"]:
                diff = [k.decode() for k in set(m[b"info"]) if bencode.encode(
                    bencode.plain(m[b"info"][k])) != bencode.encode(
                    bencode.plain(bencode.decode(base["info"]).get(k, b"")))]
                prob = "info-differs:" + "+".join(sorted(diff))
            elif set(dev_axes) <= HASH_NEUTRAL and whole_key != base["whole"]:
                prob = "file-differs-beyond-creation-date"
            res.outcomes[prob or "ok"] += 1
            if prob:
                res.violation(f"C08|{g['creator']}|{g['payload']}|{prob}|"
                              f"{what}", case,
                              {"vals": {k: vals[k] for k in dev_axes}})
        if ex.capped:
            res.notes.add("run cap hit for " + repr(g))
        res.extra["deviation_bound_completed"] = bound
        return res

    def replay(self, case):
        if case.get("kind") == "env":
            r = self.run_env({k: case[k] for k in ("kind", "env", "seed",
                                                   "tier")})
            return [{"sig": v["sig"], "detail": v["detail"]}
                    for v in r.violations if v["case"]["op"] == case["op"]]
        g = case["group"]
        base = {}
        r0 = self.one_run(e2.Run([]), g, base)
        prefix = [(c, (p[0], p[1])) for c, p in case["vector"]]
        r = self.one_run(e2.Run(prefix), g, base)
        if "error" in r:
            return [{"sig": "C08|create-failed", "detail": r["error"]}]
        i0 = bencode.decode(r0["raw"], strict=False)[b"info"]
        i1 = bencode.decode(r["raw"], strict=False)[b"info"]
        out = []
        if i0.get(b"name") != NAME.encode() or i1.get(b"name") != NAME.encode():
            out.append({"sig": "C08|name-not-base-name",
                        "detail": [i0.get(b"name"), i1.get(b"name")]})
        if bencode.plain(i0) != bencode.plain(i1):
            out.append({"sig": "C08|info-differs", "detail": r["vals"]})
        return out


def make(pid):
    return InfoHashCheck()
