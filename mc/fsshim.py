"""Filesystem-operation shim for engine E2: every filesystem operation the code
under test performs on a sandbox path is a choice point {proceed, crash here,
fail with an errno}; raw writes additionally offer partial-write variants.

Crash = process death: the sandbox is snapshotted *from the OS* at that instant
(data still in Python buffers is lost), a BaseException unwinds the code, and
every later operation is refused, so cleanup code that a dead process would not
run cannot repair the picture.
"""
import builtins
import errno
import io
import os
import shutil
import sys
import tempfile
import _io

from mc import seams


class CrashSignal(BaseException):
    pass


_real = {
    "open": builtins.open,
    "io_open": io.open,
    "os_open": os.open,
    "os_write": os.write,
    "os_fdopen": os.fdopen,
    "os_fsync": os.fsync,
    "os_remove": os.remove,
    "os_unlink": os.unlink,
    "os_rename": os.rename,
    "os_replace": os.replace,
    "os_link": os.link,
    "os_symlink": os.symlink,
    "os_mkdir": os.mkdir,
    "os_rmdir": os.rmdir,
    "os_truncate": os.truncate,
    "os_ftruncate": os.ftruncate,
    "os_chmod": os.chmod,
}


class TracingFileIO(io.FileIO):
    def __init__(self, shim, label, file, mode, closefd=True, opener=None):
        super().__init__(file, mode, closefd=closefd, opener=opener)
        self._shim = shim
        self._label = label

    def write(self, b):
        shim = self._shim
        if not shim.active:
            return super().write(b)
        data = bytes(b)
        return shim.do_write(self._label, data,
                             lambda d: io.FileIO.write(self, d))

    def truncate(self, size=None):
        shim = self._shim
        if shim.active:
            shim.op("truncate", self._label, ["EIO"])
        return super().truncate(size)


class TracingReadIO(io.FileIO):
    """Raw reader whose every read is a choice point {ok, EIO}."""

    def __init__(self, shim, label, file, mode, closefd=True, opener=None):
        super().__init__(file, mode, closefd=closefd, opener=opener)
        self._shim = shim
        self._label = label

    def readinto(self, b):
        if self._shim.active:
            k = self._shim.read_choice(self._label, len(b))
            if k is not None:
                # a short read of the raw layer (legal for a raw file object;
                # a buffered reader asks again until its buffer is full)
                tmp = bytearray(k)
                n = super().readinto(tmp)
                b[:n] = tmp[:n]
                return n
        return super().readinto(b)

    def read(self, size=-1):
        if self._shim.active:
            self._shim.op("read", self._label, ["EIO"])
        return super().read(size)

    def readall(self):
        if self._shim.active:
            self._shim.op("read", self._label, ["EIO"])
        return super().readall()


class _IoProxy:
    def __init__(self, shim):
        self._shim = shim

    def __getattr__(self, name):
        if name == "open":
            return self._shim.shim_open
        return getattr(_io, name)


class _Names:
    def __init__(self):
        self.n = 0

    def __iter__(self):
        return self

    def __next__(self):
        self.n += 1
        return f"vt{self.n:05d}"


class FsShim:
    def __init__(self, run, sandbox, focus=None, write_ks="sample",
                 fault_reads=True, read_faults=False, crashes=True,
                 short_reads=False, list_faults=False):
        self.run = run
        self.sandbox = os.path.realpath(sandbox)
        self.focus = os.path.realpath(focus) if focus else None
        self.active = False
        self.crashed = False
        self.crash_snapshot = None
        self.fault = None          # (label, what) of the last injected fault
        self.fault_state = None    # focus file state when the fault struck
        self.log = []              # (op, label)
        self.labels = {}
        self.fdpaths = {}
        self.write_ks = write_ks
        self.fault_reads = fault_reads
        self.read_faults = read_faults
        self.short_reads = short_reads
        self.list_faults = list_faults
        self.crashes = crashes

    # ---------------------------------------------------------------- utils
    def _inside(self, path):
        try:
            p = os.fspath(path)
        except TypeError:
            return None
        if isinstance(p, bytes):
            p = os.fsdecode(p)
        if isinstance(p, int):
            return None
        ap = os.path.abspath(p)
        d = os.path.realpath(os.path.dirname(ap))
        rp = os.path.join(d, os.path.basename(ap))
        if rp == self.sandbox or rp.startswith(self.sandbox + os.sep):
            return rp
        return None

    def _label(self, rp):
        if rp == self.focus:
            return "M"
        if rp not in self.labels:
            self.labels[rp] = f"T{len(self.labels) + 1}"
        return self.labels[rp]

    def focus_state(self):
        p = self.focus
        if p is None:
            return None
        if not os.path.lexists(p):
            return ("missing", None)
        if os.path.islink(p) and not os.path.exists(p):
            return ("missing", None)      # dangling link: no metafile there
        if not os.path.isfile(p):
            return ("not-regular", None)
        with _real["open"](p, "rb") as f:
            return ("file", f.read())

    def crash(self, label, what):
        self.crashed = True
        self.fault = (label, "crash:" + what)
        self.crash_snapshot = self.focus_state()
        raise CrashSignal()

    def fail(self, label, what, err):
        self.fault = (label, what)
        self.fault_state = self.focus_state()
        raise OSError(getattr(errno, err), os.strerror(getattr(errno, err)))

    def op(self, kind, label, errs):
        """Choice point for a non-write operation."""
        if self.crashed:
            raise CrashSignal()
        self.log.append((kind, label))
        alts = ["proceed"] + (["crash"] if self.crashes else []) + list(errs)
        c = self.run.choose(len(alts), f"{kind}:{label}")
        if c == 0:
            return
        if alts[c] == "crash":
            self.crash(label, "before-" + kind)
        self.fail(label, f"{kind}:{alts[c]}", alts[c])

    def read_choice(self, label, n):
        """Choice point for one raw read of up to n bytes: proceed, EIO, or
        (with short_reads) hand back fewer bytes than asked for."""
        if self.crashed:
            raise CrashSignal()
        self.log.append(("read", label))
        alts = ["proceed", "EIO"]
        if self.short_reads:
            alts += [k for k in (1, 4096) if k < n]
        c = self.run.choose(len(alts), f"read:{label}")
        if c == 0:
            return None
        if alts[c] == "EIO":
            self.fail(label, "read:EIO", "EIO")
        self.fault = (label, f"short-read-{alts[c]}-of-{n}")
        return alts[c]

    def do_write(self, label, data, raw_write):
        if self.crashed:
            raise CrashSignal()
        n = len(data)
        self.log.append(("write", label))
        if n == 0:
            return raw_write(data)
        if self.write_ks == "all" and n <= 4096:
            ks = list(range(n))
        else:
            ks = sorted({0, 1, n // 2, n - 1} & set(range(n)))
        alts = [("proceed", 0)]
        alts += [("crash", k) for k in ks]
        alts += [("ENOSPC", k) for k in ks]
        alts += [("EIO", 0)]
        alts += [("short", k) for k in ks if k >= 1]
        c = self.run.choose(len(alts), f"write:{label}:{n}")
        kind, k = alts[c]
        if kind == "proceed":
            return raw_write(data)
        if kind == "crash":
            if k:
                raw_write(data[:k])
            self.crash(label, f"write-after-{k}-of-{n}")
        if kind == "short":
            self.fault = (label, f"short-write-{k}-of-{n}")
            return raw_write(data[:k])
        if k:
            raw_write(data[:k])
        self.fail(label, f"write:{kind}-after-{k}-of-{n}", kind)

    # ------------------------------------------------------------- wrappers
    def shim_open(self, file, mode="r", buffering=-1, encoding=None,
                  errors=None, newline=None, closefd=True, opener=None):
        if not self.active:
            return _real["io_open"](file, mode, buffering, encoding, errors,
                                    newline, closefd, opener)
        if isinstance(file, int):
            rp = self.fdpaths.get(file)
        else:
            rp = self._inside(file)
        if rp is None:
            return _real["io_open"](file, mode, buffering, encoding, errors,
                                    newline, closefd, opener)
        label = self._label(rp)
        writing = any(ch in mode for ch in "wax+")
        if not writing:
            if self.fault_reads and not isinstance(file, int):
                self.op("open-r", label, ["EACCES"])
            if self.read_faults and "b" in mode and not isinstance(file, int) \
                    and os.path.isfile(file):
                raw = TracingReadIO(self, label, file, "r", closefd=closefd,
                                    opener=opener)
                if buffering == 0:
                    return raw
                return io.BufferedReader(raw)
            return _real["io_open"](file, mode, buffering, encoding, errors,
                                    newline, closefd, opener)
        if not isinstance(file, int):
            self.op("open-" + "".join(sorted(set(mode) - {"b", "t"})), label,
                    ["EACCES", "ENOSPC", "EROFS"])
        rawmode = "".join(ch for ch in mode if ch in "rwax+")
        raw = TracingFileIO(self, label, file, rawmode, closefd=closefd,
                            opener=opener)
        binary = "b" in mode
        if buffering == 0:
            if not binary:
                raise ValueError("can't have unbuffered text I/O")
            return raw
        bufsize = io.DEFAULT_BUFFER_SIZE if buffering < 0 else max(buffering, 1)
        if "+" in mode:
            buf = io.BufferedRandom(raw, bufsize)
        elif any(ch in mode for ch in "wax"):
            buf = io.BufferedWriter(raw, bufsize)
        else:
            buf = io.BufferedReader(raw, bufsize)
        if binary:
            return buf
        return io.TextIOWrapper(buf, encoding, errors, newline,
                                line_buffering=(buffering == 1))

    def os_open(self, path, flags, mode=0o777, *, dir_fd=None):
        rp = self._inside(path) if self.active and dir_fd is None else None
        if rp is None:
            if dir_fd is None:
                return _real["os_open"](path, flags, mode)
            return _real["os_open"](path, flags, mode, dir_fd=dir_fd)
        label = self._label(rp)
        if flags & (os.O_WRONLY | os.O_RDWR | os.O_CREAT | os.O_TRUNC
                    | os.O_APPEND):
            self.op("os.open-w", label, ["EACCES", "ENOSPC", "EROFS"])
        elif self.fault_reads:
            self.op("os.open-r", label, ["EACCES"])
        fd = _real["os_open"](path, flags, mode)
        self.fdpaths[fd] = rp
        return fd

    def os_write(self, fd, data):
        rp = self.fdpaths.get(fd) if self.active else None
        if rp is None:
            return _real["os_write"](fd, data)
        return self.do_write(self._label(rp), bytes(data),
                             lambda d: _real["os_write"](fd, d))

    def os_fdopen(self, fd, mode="r", buffering=-1, encoding=None, *args,
                  **kwargs):
        if self.active and fd in self.fdpaths:
            return self.shim_open(fd, mode, buffering, encoding, *args,
                                  **kwargs)
        return _real["os_fdopen"](fd, mode, buffering, encoding, *args,
                                  **kwargs)

    def os_fsync(self, fd):
        if self.active:
            f = fd if isinstance(fd, int) else fd.fileno()
            rp = self.fdpaths.get(f)
            if rp is None:
                # fd of a TracingFileIO: find by /proc
                try:
                    rp = self._inside(os.readlink(f"/proc/self/fd/{f}"))
                except OSError:
                    rp = None
            if rp is not None:
                self.op("fsync", self._label(rp), ["EIO"])
        return _real["os_fsync"](fd)

    def _one(self, name, kind, errs):
        real = _real[name]

        def wrapper(path, *a, **kw):
            rp = self._inside(path) if self.active and "dir_fd" not in kw \
                else None
            if rp is not None:
                self.op(kind, self._label(rp), errs)
            return real(path, *a, **kw)
        return wrapper

    def _two(self, name, kind, errs):
        real = _real[name]

        def wrapper(src, dst, *a, **kw):
            if self.active and not any(k.endswith("dir_fd") for k in kw):
                rs, rd = self._inside(src), self._inside(dst)
                if rs is not None or rd is not None:
                    ls = self._label(rs) if rs else "outside"
                    ld = self._label(rd) if rd else "outside"
                    self.op(kind, f"{ls}->{ld}", errs)
            return real(src, dst, *a, **kw)
        return wrapper

    # ----------------------------------------------------------- activation
    def __enter__(self):
        self.saved = {
            "copy_sendfile": shutil._USE_CP_SENDFILE,
            "tempfile_io": tempfile._io,
            "names": tempfile._name_sequence,
            "unraisable": sys.unraisablehook,
        }
        builtins.open = self.shim_open
        io.open = self.shim_open
        os.open = self.os_open
        os.write = self.os_write
        os.fdopen = self.os_fdopen
        os.fsync = self.os_fsync
        os.remove = self._one("os_remove", "remove", ["EACCES", "EROFS"])
        os.unlink = self._one("os_unlink", "remove", ["EACCES", "EROFS"])
        os.rmdir = self._one("os_rmdir", "rmdir", ["EACCES"])
        os.mkdir = self._one("os_mkdir", "mkdir", ["EACCES", "ENOSPC"])
        os.truncate = self._one("os_truncate", "truncate", ["EACCES", "EIO"])
        os.chmod = self._one("os_chmod", "chmod", ["EACCES"])
        os.rename = self._two("os_rename", "rename", ["EACCES", "EXDEV"])
        os.replace = self._two("os_replace", "replace", ["EACCES", "EXDEV"])
        os.link = self._two("os_link", "link", ["EACCES", "EXDEV"])
        os.symlink = self._two("os_symlink", "symlink", ["EACCES"])
        if self.list_faults:
            # a directory that cannot be listed (EACCES): os.listdir serves
            # Path.iterdir, os.scandir serves os.walk
            self.saved["listdir"] = os.listdir
            self.saved["scandir"] = os.scandir
            real_listdir, real_scandir = os.listdir, os.scandir

            def listdir(path="."):
                rp = self._inside(path) if self.active and \
                    not isinstance(path, int) else None
                if rp is not None:
                    self.op("listdir", self._label(rp), ["EACCES"])
                return real_listdir(path)

            def scandir(path="."):
                rp = self._inside(path) if self.active and \
                    not isinstance(path, int) else None
                if rp is not None:
                    self.op("listdir", self._label(rp), ["EACCES"])
                return real_scandir(path)
            os.listdir, os.scandir = listdir, scandir
        shutil._USE_CP_SENDFILE = False
        tempfile._io = _IoProxy(self)
        tempfile._name_sequence = _Names()
        hook = self.saved["unraisable"]

        def quiet_hook(u):
            if isinstance(u.exc_value, CrashSignal):
                return
            hook(u)
        sys.unraisablehook = quiet_hook
        self.audit = seams.Audit(self.sandbox)
        self.audit.__enter__()
        self.active = True
        return self

    def __exit__(self, *exc):
        self.active = False
        self.audit.__exit__(None, None, None)
        builtins.open = _real["open"]
        io.open = _real["io_open"]
        os.open = _real["os_open"]
        os.write = _real["os_write"]
        os.fdopen = _real["os_fdopen"]
        os.fsync = _real["os_fsync"]
        os.remove = _real["os_remove"]
        os.unlink = _real["os_unlink"]
        os.rmdir = _real["os_rmdir"]
        os.mkdir = _real["os_mkdir"]
        os.truncate = _real["os_truncate"]
        os.chmod = _real["os_chmod"]
        os.rename = _real["os_rename"]
        os.replace = _real["os_replace"]
        os.link = _real["os_link"]
        os.symlink = _real["os_symlink"]
        if "listdir" in self.saved:
            os.listdir = self.saved["listdir"]
            os.scandir = self.saved["scandir"]
        shutil._USE_CP_SENDFILE = self.saved["copy_sendfile"]
        tempfile._io = self.saved["tempfile_io"]
        tempfile._name_sequence = self.saved["names"]
        sys.unraisablehook = self.saved["unraisable"]
        return False

    # ------------------------------------------------ completeness of seams
    def unowned_events(self):
        """Audited mutating events on sandbox paths that no shim operation
        accounts for (must be empty, else the seams do not own the run)."""
        kinds = {"open-w": ("open-", "os.open-w"),
                 "open-create": ("open-", "os.open-w"), "os.remove": ("remove",),
                 "os.rename": ("rename", "replace"), "os.mkdir": ("mkdir",),
                 "os.rmdir": ("rmdir",), "os.truncate": ("truncate",),
                 "os.link": ("link",), "os.symlink": ("symlink",),
                 "os.chmod": ("chmod",)}
        have = {}
        for kind, _label in self.log:
            have[kind] = have.get(kind, 0) + 1
        need = {}
        for ev in self.audit.events:
            need[ev[0]] = need.get(ev[0], 0) + 1
        missing = []
        for ev, cnt in need.items():
            pre = kinds.get(ev)
            if ev.startswith(("shutil.", "tempfile.")):
                # composite library events; their effects reach the OS through
                # os.open / os.chmod / ... which are owned and audited as such
                continue
            if pre is None:
                missing.append((ev, cnt, "no seam"))
                continue
            got = sum(c for k, c in have.items()
                      if any(k.startswith(p) for p in pre))
            if got < cnt:
                missing.append((ev, cnt, got))
        return missing
