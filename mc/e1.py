"""Engine E1: bounded-exhaustive world enumeration at real scale (R) and in the
scaled instantiation (S) of the same code, with S->R conformance replay."""
import itertools

from mc import world

REAL_B = 16384


def r_alphabet(P, tier, n):
    """Boundary alphabet of file sizes for an n-file shape at real scale."""
    B = REAL_B
    full = [0, 1, B - 1, B, B + 1, P - 1, P, P + 1, P + B, 2 * P - 1, 2 * P,
            2 * P + 1, 3 * P - 1, 3 * P, 3 * P + 1, 4 * P, 5 * P, 5 * P + 1,
            7 * P, 8 * P, 8 * P + 1]
    if tier == "quick":
        pick = [0, 1, B, B + 1, P - 1, P, P + 1, 2 * P, 2 * P + 1, 3 * P - 1]
        if n >= 4:
            pick = [0, 1, B + 1, P, P + 1, 2 * P]
    else:
        pick = full
        if n == 3:
            pick = [0, 1, B - 1, B, B + 1, P - 1, P, P + 1, P + B, 2 * P - 1,
                    2 * P, 2 * P + 1, 3 * P, 3 * P + 1, 5 * P + 1]
        if n == 4:
            pick = [0, 1, B + 1, P - 1, P, P + 1, 2 * P, 3 * P + 1]
        if n >= 5:
            pick = [0, 1, P, P + 1, 2 * P + 1]
    out = []
    for x in pick:
        if x not in out and x >= 0:
            out.append(x)
    return out


def dense_sizes(P, B, kmax=None):
    """Every k*B + d for the single-file sweeps."""
    if kmax is None:
        kmax = 8 * (P // B) + 1
    out = set()
    for k in range(kmax + 1):
        for d in (-1, 0, 1, B // 2):
            x = k * B + d
            if x >= 0:
                out.add(x)
    return sorted(out)


def s_sizes(P, tier, n):
    top = 2 * P + 1
    if tier == "thorough" and n <= 3:
        top = 4 * P + 1
    if n >= 4:
        top = min(top, P + 2) if tier == "quick" else min(top, 2 * P + 1)
    return list(range(0, top + 1))


def to_real(x, Bs):
    """Map a size/offset of the scaled model to real scale."""
    q, r = divmod(x, Bs)
    if Bs == 2:
        rr = r
    else:
        # r in 0..Bs-1: 1 -> 1, Bs-1 -> B-1, middle -> proportional
        rr = 0 if r == 0 else (1 if r == 1 else
                               (REAL_B - 1 if r == Bs - 1 else
                                r * (REAL_B // Bs)))
    return q * REAL_B + rr


def world_to_real(w):
    Bs = w["B"]
    if Bs == REAL_B:
        return dict(w)
    r = dict(w)
    r["B"] = REAL_B
    r["P"] = w["P"] // Bs * REAL_B
    r["sizes"] = [to_real(s, Bs) for s in w["sizes"]]
    r["scale"] = "R"
    for k in ("cids", "rootname"):
        if k in w:
            r[k] = w[k]
    r["from_S"] = {"B": Bs, "P": w["P"], "sizes": list(w["sizes"])}
    return r


def cyclic_vectors(n, pattern, offsets=None, stride=1):
    """Size vectors for shapes with many files: the pattern repeated along the
    file list, once per starting offset (so that every pattern value meets
    every neighbour and lands in every position modulo the pattern)."""
    m = len(pattern)
    out = []
    for k in (range(m) if offsets is None else offsets):
        out.append([pattern[(k + stride * i) % m] for i in range(n)])
    return out


def size_groups(shape, alphabet):
    """Group descriptors: one per value of the first file's size."""
    n = world.nfiles(shape)
    if n == 1:
        return [{"first": None}]
    return [{"first": s} for s in alphabet]


def iter_sizes(shape, alphabet, first):
    n = world.nfiles(shape)
    if first is None:
        for s in alphabet:
            yield [s]
        return
    for rest in itertools.product(alphabet, repeat=n - 1):
        yield [first] + list(rest)


def world_class(w):
    """Coarse, scale-free description of a world, used in signatures."""
    P, B = w["P"], w["B"]
    sizes = w["sizes"]
    tags = []
    if w["shape"] == "S1":
        tags.append("single")
    else:
        tags.append("dir")
    if any(s == 0 for s in sizes):
        tags.append("empty-file")
    if any(isinstance(c, str) and c.startswith(("z", "holes"))
           for c in w.get("cids") or ()):
        tags.append("zero-regions")
    return "+".join(tags)
