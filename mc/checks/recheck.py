"""C04, C05, C16 — recheck properties; one exploration (E1 worlds x metafile
families x content path x damage sets), three oracles."""
import itertools
import os

from mc import core, e1, e2, envrun, fsshim, seams, tf, world
from mc.ref import bencode, model

REAL_B = e1.REAL_B

OWN = {
    "own-v1": ("TorrentFile", {}),
    "own-v1-aligned": ("TorrentFile", {"align": True}),
    "own-v2": ("Assembler2", {}),
    "own-hybrid": ("Assembler3", {}),
    "own-v2-class": ("TorrentFileV2", {}),
    "own-hybrid-class": ("TorrentFileHybrid", {}),
}
REF = ["ref-V1", "ref-V1-perm", "ref-V1-bep47", "ref-V2", "ref-HY-notrail",
       "ref-HY-trail", "ref-V1-extra", "ref-V2-extra", "ref-V1-bep47x2"]
PADDED_V1 = {"own-v1-aligned", "ref-V1-bep47", "ref-V1-bep47x2"}
# env form 'deep': 24 nested directories with 200-byte names (absolute path of
# the content > 4800 bytes > PATH_MAX)
DEEP_NAMES = [f"lv{i:02d}-" + "d" * 195 for i in range(24)]

# process-environment axis (mc/envrun.py): one recheck per child interpreter
PENV_SIZES = [20000, 40000, 5, 33000]
PENV_P = 16384
PENV_FAMS = {"quick": ["own-v1", "own-v2", "own-hybrid"],
             "thorough": ["own-v1", "own-v1-aligned", "own-v2", "own-hybrid",
                          "ref-V1", "ref-V1-bep47", "ref-V2",
                          "ref-HY-notrail"]}
# intact, damage in / removal of the last file (after the long-named ones)
PENV_DAMAGES = {"quick": [[], [["flip", 3, 16500]], [["rm", 3, 0]]],
                "thorough": [[], [["flip", 3, 16500]], [["rm", 3, 0]],
                             [["trunc", 1, 20000]], [["flip", 1, 0]],
                             [["rm", 2, 0]], [["flip", 0, 19999]]]}
# environments in which a name outside ASCII cannot be spelled: they also run
# on the all-ASCII twin of the world
PENV_ASCII_ENVS = ("ascii-fs", "ascii-all", "posix-locale")
PENV_BODY = {
    "lib": ("import sys\n"
            "import torrentfile.recheck\n"
            "c = sys.modules['torrentfile.recheck'].Checker({m!r}, {c!r})\n"
            "OBS = {{'pct': float(c.results())}}\n"),
    "cli": ("import sys\n"
            "import torrentfile.cli\n"
            "v = sys.modules['torrentfile.cli'].execute("
            "['recheck', {m!r}, {c!r}])\n"
            "OBS = {{'pct': float(v)}}\n"),
}
# kept Checker objects (library surface), real scale
KEPT_WORLDS = [("D3", [20000, 40000, 5]), ("D4n", [5, 40000, 0, 33000]),
               ("D2n", [49157, 70000])]


def ref_meta(family, tree, P, B):
    name = world.ROOT_NAME
    if family == "ref-V1":
        return model.ref_v1(name, tree, P)
    if family == "ref-V1-perm":
        return model.ref_v1(name, tree, P, "perm")
    if family == "ref-V1-bep47":
        return model.ref_v1(name, tree, P, "bep47")
    if family == "ref-V1-bep47x2":
        return model.ref_v1(name, tree, P, "bep47x2")
    if family == "ref-V2":
        return model.ref_v2(name, tree, P, B)
    if family == "ref-HY-notrail":
        return model.ref_hybrid(name, tree, P, B, trail=False)
    if family == "ref-HY-trail":
        return model.ref_hybrid(name, tree, P, B, trail=True)
    if family in ("ref-V1-extra", "ref-V2-extra"):
        # conformant metafiles carrying keys this tool never writes
        if family == "ref-V1-extra":
            m = model.ref_v1(name, tree, P)
            for i, e in enumerate(m[b"info"].get(b"files", [])):
                e[b"md5sum"] = b"0" * 32
                if i % 2 == 0:
                    e[b"attr"] = b"x"
        else:
            m = model.ref_v2(name, tree, P, B)

            count = [0]

            def mark(node):
                for k, v in node.items():
                    if b"" in v:
                        # every other leaf carries an attribute
                        if count[0] % 2 == 0:
                            v[b""][b"attr"] = b"x"
                        count[0] += 1
                    else:
                        mark(v)
            mark(m[b"info"][b"file tree"])
        m[b"comment"] = b"top-level comment"
        m[b"encoding"] = b"UTF-8"
        m[b"created by"] = b"ref"
        m[b"info"][b"x-unknown"] = [b"\xff", 1]
        m[b"nodes"] = [[b"127.0.0.1", 6881]]
        return m
    raise ValueError(family)


def families(tier, nfiles):
    fams = ["own-v1", "own-v1-aligned", "own-v2", "own-hybrid"] + REF
    if tier == "quick" and nfiles > 3:
        fams = [f for f in fams if not f.endswith("-extra")]
    if tier == "thorough":
        fams += ["own-v2-class", "own-hybrid-class"]
    return fams


def damages_for(files, P, scale, order):
    """All single damages for a world: ('flip', i, off) / ('trunc', i, len) /
    ('rm', i).  S: every offset / length.  R: boundary sample."""
    out = []
    for i, (rel, data) in enumerate(files):
        n = len(data)
        if n == 0:
            continue
        out.append(("rm", i, 0))
        if scale == "S":
            offs = range(n)
            lens = range(n)
        else:
            offs = {0, n - 1, n // 2}
            lens = {0, n - 1, n // 2}
            ks = [k * P for k in range(1, n // P + 1)]
            for b in ks[:2] + ks[-1:]:
                for d in (-1, 0):
                    if 0 <= b + d < n:
                        offs.add(b + d)
                for d in (-1, 0, 1):
                    if 0 <= b + d < n:
                        lens.add(b + d)
            offs, lens = sorted(offs), sorted(lens)
        for o in offs:
            out.append(("flip", i, o))
        for ln in lens:
            out.append(("trunc", i, ln))
    return out


def apply_damage(files, dmg_set):
    """Return {index: new bytes or None(removed)} for a damage set; a set never
    contains two damages that make each other moot (rm + anything on the file)."""
    cur = {}
    for kind, i, x in dmg_set:
        data = cur.get(i, files[i][1])
        if data is None:
            return None
        if kind == "rm":
            if i in cur:
                return None
            cur[i] = None
        elif kind == "flip":
            if x >= len(data):
                return None
            b = data[x] ^ 0xFF
            if b == 0:
                b = 0x55 if data[x] != 0x55 else 0x33
            cur[i] = data[:x] + bytes([b]) + data[x + 1:]
        elif kind == "trunc":
            if x >= len(data):
                return None
            cur[i] = data[:x]
    return cur


def dmg_class(dmg_set):
    if not dmg_set:
        return "intact"
    return "+".join(sorted(k for k, _, _ in dmg_set))


def map_damage_to_real(d, Bs):
    kind, i, x = d
    return (kind, i, e1.to_real(x, Bs) if kind != "rm" else 0)


class RecheckCheck:
    def __init__(self, pid):
        self.id = pid
        self.assumptions = [
            "payload bytes contain no zero byte, so every flip / truncation / "
            "removal of a non-empty region changes described non-zero bytes",
            "damage alphabet: flip a byte, truncate to a shorter length, remove "
            "a file; S: every offset and length; R: boundary sample (first, "
            "middle, last, piece boundaries +-1)",
            "damage sets of size 0,1 (quick) and 2 (thorough, S only, for "
            "worlds whose total size is within a stated budget: <= 2P+1 for "
            "one file, <= 2P+2 for two files, <= P+3 for three)",
            "foreign metafiles come from the reference encoder and are "
            "self-checked by the reference verifier (100% on intact content)",
            "content parent directory never carries the torrent's own name "
            "(it does contain siblings whose names extend the torrent name)",
            "environment faults during a recheck of damaged content (a file "
            "that cannot be opened, a failing read, a progress line that "
            "cannot be written; one per execution): an answer that comes back "
            "must still be below 100 and exact",
            "one Checker object is asked twice, before and after the content "
            "is repaired (real scale, first damage of each kind per world): "
            "the second answer must be the intact one",
            "intact content is also given through a symbolic link named like "
            "the torrent whose target directory has another name",
            "environment forms at real scale (library and CLI, every family, "
            "intact + each removal + one flip per file): spellings of the "
            "content path, a symlinked sub-directory, files removed with "
            "their directories, sparse storage, and 'deep': the content "
            "moved 24 directories with 200-byte names down, so that its "
            "absolute path (> 4800 bytes) exceeds PATH_MAX and only a path "
            "relative to a working directory inside the tree can name it "
            "(`top`, `./top`, the parent as `.`, the root as `.` from "
            "inside, `..` from a sub-directory)",
            "entry points: Checker(metafile, path).results() everywhere; the "
            "CLI `recheck` for intact and removal cases at real scale",
            "process environment (mc/envrun.py): every member of envrun.ENVS "
            "(terminal widths, -O, ASCII filesystem encoding / locale, stdout "
            "closed / full / a file / ascii-only, removed working directory, "
            "-W error, debug switch, recursion limit, descriptor limit, "
            "umasks, no HOME, time zone, small io buffer) x one real-scale "
            "4-file tree (a short name, names wider than a narrow terminal's "
            "title column with long extensions, one non-ASCII name in a "
            "sub-directory; its all-ASCII twin under the ASCII locales) x "
            "{intact, flip in the last file, last file removed} x own v1 / "
            "v2 / hybrid x library and command line, ONE recheck per child "
            "interpreter, absolute paths; thorough adds foreign families, "
            "more damages, the parent as content path and the twin tree in "
            "every environment",
            "reading for the environment axis: a number that comes back (or "
            "a result line that is printed) is judged exactly like anywhere "
            "else (C04 < 100 on visible damage, C05 == 100 on intact content, "
            "C16 == reference); a REFUSAL (the recheck raises / the child "
            "dies and no number is reported) is recorded in the outcome "
            "histogram and never judged - the statements say what a report "
            "must be, not that every environment must get one",
            "kept Checker objects (library surface, real scale, every "
            "family, 3 trees, content path root and parent): constructed "
            "while a file was missing / a sub-directory was missing / a file "
            "was shorter, the payload then completed, then results() or a "
            "full iter_hashes() pass: judged as intact content; a walk over "
            "iter_hashes() abandoned after k items (k = 1, up to and "
            "including the first failing piece, all but one; generator "
            "closed or still held) on intact and on each singly damaged disk "
            "(flip / truncate / remove per file), then results() on the same "
            "object - on the same disk, after the repair, after a damage: "
            "judged against the reference for the disk at the moment of "
            "asking",
            "C16: v1 metafiles with padding entries are judged only where the "
            "reference percentage is 0 or 100; the per-piece verdict vector of "
            "iter_hashes() is compared with the model's only when both cut "
            "the same sequence of piece sizes (else only the percentage)",
            "a FileNotFoundError when the content root itself was removed "
            "counts as 'not 100%'",
            "scaled model S = same code with BLOCK_SIZE rebound; every S "
            "disagreement is reported only after its R image fails too",
        ]
        self.nontrivial_rule = (
            "a (world, family, disk) state is non-trivial if the disk is "
            "damaged, or if it belongs to an environment form other than "
            "plain intact content, or to a process environment other than "
            "`default`, or to a kept-object form; intact baseline states are "
            "the trivial ones; counted = distinct non-trivial states")
        self.rule = (
            "nested product: scale x P x shape x size vector x metafile family "
            "x content path (root|parent) x damage set; state = distinct "
            "(world, family, damaged disk); transition = one Checker.results() "
            "run of the real code; each compared with the reference recheck "
            "model (percentage); plus environment x tree x damage x family x "
            "route, one child interpreter per recheck; plus kept-object forms "
            "(construction-time incompleteness x path x consumer; abandoned "
            "walk k x held/closed x next disk) x family x tree")

    def groups(self, tier, seed):
        quick = tier == "quick"
        gs = []
        # S
        for B in ([2] if quick else [2, 4]):
            for P in ([B, 2 * B] if quick else [B, 2 * B, 4 * B]):
                for sh in ["S1", "D1", "D2", "D2n", "D3", "D3s", "D3n", "D4"]:
                    n = world.nfiles(sh)
                    if sh == "D3n" and (P != 2 * B or B != 2):
                        continue
                    if n == 3:
                        top = P + 2 if quick else 2 * P + 1
                        if B == 4 or P > 2 * B:
                            top = P + 1
                    elif n >= 4:
                        if B != 2 or P > 2 * B:
                            continue
                        top = P // 2 + 1 if quick else P + 1
                    elif n == 2:
                        top = 2 * P + 1 if quick else min(4 * P + 1, 26)
                    else:
                        top = 2 * P + 1 if quick else 4 * P + 1
                    alpha = list(range(0, top + 1))
                    if n == 1:
                        # one group per chunk of sizes (a single file has no
                        # "first size" to split on)
                        for i in range(0, len(alpha), 6):
                            gs.append({"scale": "S", "B": B, "P": P,
                                       "shape": sh, "alpha": alpha[i:i + 6],
                                       "first": None, "seed": seed,
                                       "tier": tier,
                                       "maxdmg": 1 if quick else 2})
                        continue
                    for g in e1.size_groups(sh, alpha):
                        gs.append({"scale": "S", "B": B, "P": P, "shape": sh,
                                   "alpha": alpha, "first": g["first"],
                                   "seed": seed, "tier": tier,
                                   "maxdmg": 1 if quick or n >= 4 else 2})
        # S, long single files: block / piece counts beyond 2^8, 2^9, 2^10
        for P in (2, 1024):
            alpha = [513, 514, 515, 770, 1026, 1027, 2049, 2050, 2051]
            for sh in ("S1", "D1"):
                gs.append({"scale": "S", "B": 2, "P": P, "shape": sh,
                           "alpha": alpha, "first": None, "seed": seed,
                           "tier": tier, "maxdmg": 1, "long": True})
        # R
        Ps = [32768] if quick else [16384, 32768, 65536]
        for P in Ps:
            for sh in (["S1", "D1", "D1n", "D2n", "D3", "D3n", "D3d", "D3b", "D3e", "D3o",
                        "D3u"] if quick
                       else ["S1", "D1", "D1n", "D2n", "D3", "D3s", "D3n",
                             "D3d", "D3b", "D3e", "D3o", "D3u", "D4"]):
                n = world.nfiles(sh)
                if n <= 2:
                    alpha = e1.r_alphabet(P, "quick", n)
                elif n == 3 and sh not in ("D3", "D3s"):
                    # shapes that vary names / structure, not sizes
                    alpha = [0, P + 1] if quick else [0, 1, P + 1]
                elif n == 3:
                    alpha = [0, 1, P, P + 1, 2 * P] if quick else \
                        [0, 1, REAL_B + 1, P - 1, P, P + 1, 2 * P, 3 * P + 1]
                else:
                    alpha = [0, 1, P, P + 1]
                alpha = sorted(set(alpha))
                for g in e1.size_groups(sh, alpha):
                    gs.append({"scale": "R", "B": REAL_B, "P": P, "shape": sh,
                               "alpha": alpha, "first": g["first"],
                               "seed": seed, "tier": tier, "maxdmg": 1})
        # R, the largest accepted piece length with tiny files
        for sh in ("S1", "D2n"):
            for g in e1.size_groups(sh, [1, 16385]):
                gs.append({"scale": "R", "B": REAL_B, "P": 1 << 25,
                           "shape": sh, "alpha": [1, 16385],
                           "first": g["first"], "seed": seed, "tier": tier,
                           "maxdmg": 1})
        # scale and count: many files per directory, deep nesting, long names
        # (explicit size vectors; every single damage of every file, for the
        # larger shapes every single damage of every 7th file)
        for sh, stride, nv in (("W40", 1, 2), ("N16", 1, 4), ("L250", 1, 4),
                               ("W300", 7, 1)):
            n = world.nfiles(sh)
            P = 4
            pat = list(range(0, 2 * P + 2))
            vecs = e1.cyclic_vectors(n, pat, offsets=range(
                nv if quick else min(2 * nv, len(pat))), stride=3)
            for v in vecs:
                nparts = {"W300": 12, "W40": 4}.get(sh, 1)
                for part in range(nparts):
                    gs.insert(0, {"scale": "S", "B": 2, "P": P, "shape": sh,
                               "sizes_list": [v], "seed": seed, "tier": tier,
                               "maxdmg": 1, "dmg_stride": stride,
                               "dmg_part": [part, nparts],
                               "fams": None if stride == 1 else
                               ["own-v1", "own-v2", "own-hybrid",
                                "ref-V1-bep47"]})
        # more than a thousand files, among them a run of > 1000 empty ones
        for v in ([5] + [0] * 1098 + [7],
                  e1.cyclic_vectors(1100, [3, 0, 0, 9, 1], offsets=[0])[0]):
            gs.insert(0, {"scale": "S", "B": 2, "P": 4, "shape": "W1100",
                          "sizes_list": [v], "seed": seed, "tier": tier,
                          "maxdmg": 1, "dmg_stride": 1099,
                          "fams": ["own-v1", "own-v2", "own-hybrid",
                                   "ref-V1-bep47", "ref-V2",
                                   "ref-HY-notrail"]})
        # damage that is a tiny share of the payload (what rounding hides),
        # every damage also through the command line
        for sh, v in (("D2n", [3 * (1 << 20), 5]),
                      ("D3", [5, 3 * (1 << 20), 7])):
            for part in range(4):
                gs.insert(0, {"scale": "R", "B": REAL_B, "P": 16384,
                              "shape": sh, "sizes_list": [v], "seed": seed,
                              "tier": tier, "maxdmg": 1, "allcli": True,
                              "dmg_part": [part, 4],
                              "fams": ["own-v1", "own-v2", "own-hybrid",
                                       "ref-V1-bep47", "ref-HY-notrail"]})
        # the same bytes in several files (v2: equal roots, shared layers)
        for scale, B, P, sizes in (
                ("S", 2, 4, [[s, s, s] for s in range(1, 12)]),
                ("R", REAL_B, 32768, [[s, s, s] for s in (
                    1, 16384, 32768, 32769, 65537)])):
            for v in sizes:
                gs.insert(0, {"scale": scale, "B": B, "P": P, "shape": "D3x",
                              "sizes_list": [v], "cids": [0, 0, 0],
                              "seed": seed, "tier": tier, "maxdmg": 1})
        # environment forms of the content and of the path naming it (real
        # scale): spellings of the content path, a sub-directory reached
        # through a symbolic link, files removed together with their
        # directories, files stored with holes, content that lies so deep
        # that only a relative path can name it (its absolute path is longer
        # than PATH_MAX)
        for sh, v in (("D3", [20000, 40000, 5]), ("D4n", [5, 40000, 0, 33000]),
                      ("S1", [40000])):
            for form in ("spell", "linked-subdir", "prune", "sparse", "deep"):
                if sh == "S1" and form in ("linked-subdir", "prune"):
                    continue
                gs.insert(0, {"kind": "env", "form": form, "shape": sh,
                              "sizes": v, "seed": seed, "tier": tier})
        # payloads whose piece string / pieces roots are well-formed UTF-8 text
        # (a decoder that returns text-like byte strings as str answers
        # differently for them), library and command line
        for sh, v, cids in world.text_like_worlds():
            gs.insert(0, {"scale": "R", "B": REAL_B, "P": 16384, "shape": sh,
                          "sizes_list": [v], "cids": cids, "seed": seed,
                          "tier": tier, "maxdmg": 1, "allcli": True})
        # contents with all-zero regions (absent data is read as zeros: an
        # absent all-zero piece still verifies); C04 is judged only where the
        # reference says the damage is visible
        for cids in (["ztail", "ztailB"], ["zero", "zhead"], ["zhead", "zero"]):
            for P in ((4, 8) if quick else (2, 4, 8)):
                for sh in ("S1", "D2n"):
                    n = world.nfiles(sh)
                    top = 2 * P + 1 if n == 1 else P + 2
                    alpha = list(range(0, top + 1))
                    for gg in e1.size_groups(sh, alpha):
                        gs.insert(0, {"scale": "S", "B": 2, "P": P,
                                      "shape": sh, "alpha": alpha,
                                      "first": gg["first"], "cids": cids[:n],
                                      "seed": seed, "tier": tier,
                                      "maxdmg": 1})
            Pr = 32768
            for sh, vs in (("S1", [[Pr + Pr // 2], [3 * Pr], [3 * Pr + 5],
                                   [100000]]),
                           ("D2n", [[3 * Pr + 5, 70000], [5, 2 * Pr]])):
                n = world.nfiles(sh)
                for v in vs:
                    gs.insert(0, {"scale": "R", "B": REAL_B, "P": Pr,
                                  "shape": sh, "sizes_list": [v],
                                  "cids": cids[:n], "seed": seed,
                                  "tier": tier, "maxdmg": 1})
        # a large piece length over files of several MiB (thresholds in bytes)
        MiB = 1 << 20
        for P in ([1 << 23] if quick else [1 << 22, 1 << 23]):
            for v in ([[3 * MiB + 17, 6 * MiB + 5, MiB + 1],
                       [12 * MiB, 5 * MiB + 321, 7]] if quick else
                      [[3 * MiB + 17, 6 * MiB + 5, MiB + 1],
                       [12 * MiB, 5 * MiB + 321, 7],
                       [4 * MiB, 4 * MiB, 9 * MiB],
                       [3 * MiB, 9 * MiB, 2 * MiB],
                       [6 * MiB + 5, MiB + 1, 9 * MiB]]):
                for part in range(8):
                    gs.insert(0, {"scale": "R", "B": REAL_B, "P": P,
                                  "shape": "D3", "sizes_list": [v],
                                  "seed": seed, "tier": tier, "maxdmg": 1,
                                  "dmg_part": [part, 8],
                                  "fams": ["own-v1", "own-v2", "own-hybrid",
                                           "ref-V1-bep47", "ref-HY-notrail"]})
        # environment faults during a recheck of damaged content (E2, one
        # fault per execution): an answer that comes back must still be right
        for fam in ("own-v1", "own-v2", "own-hybrid", "ref-V1-bep47"):
            gs.append({"kind": "iofault", "family": fam, "seed": seed,
                       "tier": tier})
        # process environment (mc/envrun.py): one recheck per child
        # interpreter, every member of envrun.ENVS x intact / damaged last
        # file / removed last file x family x library and command line, on a
        # tree whose names are wider than a narrow terminal's title column,
        # have long extensions and (one of them) are not ASCII
        extra = []
        for env in envrun.ENVS:
            shapes = ["D4env"]
            if env in PENV_ASCII_ENVS or not quick:
                shapes.append("D4enva")
            for sh in shapes:
                for dmg in PENV_DAMAGES[tier]:
                    extra.append({"kind": "penv", "env": env, "shape": sh,
                                  "damage": dmg, "fams": PENV_FAMS[tier],
                                  "paths": ["root"] if quick else
                                  ["root", "parent"],
                                  "seed": seed, "tier": tier})
        # kept Checker objects (library surface): constructed while the
        # payload was incomplete and asked after it was completed; asked
        # after a walk over iter_hashes() was abandoned midway
        for sh, v in KEPT_WORLDS:
            for fam in families(tier, world.nfiles(sh)):
                extra.append({"kind": "kept", "shape": sh, "sizes": v,
                              "family": fam, "seed": seed, "tier": tier})
        gs[1:1] = extra
        return gs

    # ------------------------------------------------------------------
    def run_iofault(self, g):
        res = core.Result()
        seed, fam = g["seed"], g["family"]
        P = 32768
        w = {"scale": "R", "B": REAL_B, "P": P, "shape": "D3",
             "sizes": [P + 1, 5, 2 * P]}
        files, parent, root, metas = self.setup_world(w, seed, [fam])
        mpath, meta = metas[fam]
        dmg = (("flip", 2, P + 7),)
        changed = apply_damage(files, dmg)
        self.write_state(root, files, changed)
        disk = self.disk_of(files, changed)
        want, _v, _t = model.recheck_model(meta, disk, REAL_B)

        class FaultyOut:
            def __init__(self, run):
                self.run = run

            def write(self, text):
                if self.run.choose(2, "stdout-write") == 1:
                    raise BlockingIOError(11, "Resource temporarily "
                                              "unavailable")
                return len(text)

            def flush(self):
                pass

        def one(run):
            import sys
            so, se = sys.stdout, sys.stderr
            shim = fsshim.FsShim(run, parent, fault_reads=True,
                                 read_faults=True, crashes=False)
            try:
                sys.stdout = FaultyOut(run)
                sys.stderr = tf.NULL
                with shim:
                    c = tf.recheck.Checker(mpath, root)
                    return ("pct", float(c.results()))
            except BaseException as e:  # noqa
                return ("raised:" + type(e).__name__, None)
            finally:
                sys.stdout, sys.stderr = so, se

        ex = e2.Explorer(1, max_runs=20000)
        for run, (kind, val) in ex.explore(one):
            res.states += 1
            res.transitions += 1
            res.evals += 1
            res.validated += 1
            dev = [lab for c, (n, lab) in zip(run.choices, run.points) if c]
            what = dev[0].split(":")[0] if dev else "no-fault"
            prob = None
            if kind == "pct":
                if val >= 100 and self.id == "C04":
                    prob = "damaged-reported-100"
                elif abs(val - want) > 1e-9 and self.id == "C16" and \
                        fam not in PADDED_V1:
                    prob = "percentage-differs"
            res.outcomes[f"iofault:{what}/{kind.split(':')[0]}/"
                         f"{prob or 'ok'}"] += 1
            if prob:
                res.violation(
                    f"{self.id}|{fam}|{prob}|after-fault:{what}",
                    {"kind": "iofault", "family": fam, "seed": seed,
                     "vector": [[c, list(pt)] for c, pt in
                                zip(run.choices, run.points)]},
                    {"reported": val, "reference": want})
        res.sample({"kind": "iofault", "family": fam, "runs": ex.runs})
        return res

    def setup_world(self, w, seed, fams):
        """Materialise the world and one metafile per family."""
        B, P = w["B"], w["P"]
        files = world.files_of(w, seed)
        tree = dict(files)
        base = world.fresh_dir()
        parent = os.path.join(base, "content")
        os.mkdir(parent)
        # siblings whose names extend / are extended by the torrent name,
        # one created before and one after the payload (listing order)
        world.write_file(os.path.join(parent, world.ROOT_NAME + ".old", "a"),
                         b"junk")
        root = world.materialize(files, parent, shape=w["shape"])
        world.write_file(os.path.join(parent, world.ROOT_NAME + "2"), b"junk")
        world.write_file(os.path.join(parent, "to"), b"junk")
        # and siblings that differ from it only in letter case
        world.write_file(os.path.join(parent, world.ROOT_NAME.upper(), "a"),
                         b"junk")
        world.write_file(os.path.join(parent, world.ROOT_NAME.title()),
                         b"junk")
        mdir = os.path.join(base, "meta")
        os.mkdir(mdir)
        metas = {}
        tf.reset_process_state()
        for fam in fams:
            mpath = os.path.join(mdir, fam + ".torrent")
            try:
                if fam in OWN:
                    creator, kw = OWN[fam]
                    raw = tf.create(creator, root, mpath, P, **kw)
                else:
                    raw = bencode.encode(ref_meta(fam, tree, P, B))
                    with open(mpath, "wb") as f:
                        f.write(raw)
                metas[fam] = (mpath, bencode.decode(raw, strict=False))
            except Exception as e:  # noqa
                metas[fam] = (None, e)
        return files, parent, root, metas

    @staticmethod
    def disk_of(files, changed):
        disk = {}
        for i, (rel, data) in enumerate(files):
            d = changed.get(i, data)
            if d is not None:
                disk[tuple(model.u(c) for c in rel)] = d
        return disk

    @staticmethod
    def write_state(root, files, changed, restore=False):
        for i in changed:
            rel, orig = files[i]
            p = os.path.join(root, *rel) if rel else root
            data = orig if restore else changed[i]
            if data is None:
                if os.path.exists(p):
                    os.remove(p)
            else:
                with open(p, "wb") as f:
                    f.write(data)

    def run_impl(self, mpath, content, cli=False):
        try:
            if cli:
                # the value returned and the line printed for the user
                import io
                import re
                import sys
                buf = io.StringIO()
                self.last_printed = None
                with tf.quiet():
                    so = sys.stdout
                    sys.stdout = buf
                    try:
                        val = float(tf.cli.execute(["recheck", mpath,
                                                    content]))
                    finally:
                        sys.stdout = so
                # only the result line: the one naming both the content and
                # the metafile (progress displays are not judged)
                text = " ".join(
                    ln.replace(mpath, " ").replace(content, " ")
                    for ln in buf.getvalue().replace("\r", "\n").split("\n")
                    if mpath in ln and content in ln)
                self.last_printed = [float(x) for x in re.findall(
                    r"(?<![\w.])(\d+(?:\.\d+)?)\s*%", text)]
                if len(content) < 3:
                    # "." / "..": the result line cannot be told apart by
                    # the content argument; only the returned value is judged
                    self.last_printed = None
                return ("pct", val)
            with tf.quiet():
                c = tf.recheck.Checker(mpath, content)
                if self.id == "C16":
                    vec = [(chunk == piece, size)
                           for chunk, piece, _p, size in c.iter_hashes()]
                    self.last_vector = vec
                    return ("pct", float(c._result))
                return ("pct", float(c.results()))
        except FileNotFoundError:
            return ("fnf", None)
        except Exception as e:  # noqa
            return ("raised:" + type(e).__name__, str(e)[:160])

    def judge(self, fam, meta, dmg_set, got, want_pct, root_missing):
        """Return list of (property, problem) this observation violates."""
        out = []
        kind, val = got
        intact = not dmg_set
        if kind == "fnf" and root_missing and not intact:
            return out
        if kind != "pct":
            if intact:
                out.append(("C05", kind))
            out.append(("C16", kind))
            return out
        if intact and abs(want_pct - 100) < 1e-9 and val != 100:
            out.append(("C05", "intact-reported-below-100"))
        if not intact and want_pct < 100 and val >= 100:
            out.append(("C04", "damaged-reported-100"))
        printed = getattr(self, "last_printed", None)
        if printed and not intact and want_pct < 100 and \
                any(x >= 100 for x in printed):
            out.append(("C04", "damaged-printed-as-100"))
        if printed and intact and abs(want_pct - 100) < 1e-9 and \
                any(x != 100 for x in printed):
            out.append(("C05", "intact-printed-below-100"))
        if abs(val - want_pct) > 1e-9:
            if fam in PADDED_V1 and 1e-9 < want_pct < 100 - 1e-9:
                pass
            else:
                out.append(("C16", "percentage-differs"))
        return out

    def explore_world(self, w, seed, fams, dmg_sets, res, confirm_only=False):
        """Run every (family, path, damage set) on world w; returns list of
        (sig, case, detail) for this property."""
        B, P = w["B"], w["P"]
        found = []
        with tf.scale(B):
            files, parent, root, metas = self.setup_world(w, seed, fams)
            single = w["shape"] == "S1"
            reuse_done = set()
            # the same payload reached through a symbolic link that carries
            # the torrent's name while the real directory is named otherwise
            linkroot = None
            if w["scale"] == "R" or world.nfiles(w["shape"]) <= 2:
                store = os.path.join(os.path.dirname(parent), "store")
                links = os.path.join(os.path.dirname(parent), "links")
                os.makedirs(store, exist_ok=True)
                os.makedirs(links, exist_ok=True)
                real = os.path.join(store, "rel-2024.d")
                if not os.path.lexists(real):
                    if os.path.isdir(root):
                        import shutil
                        shutil.copytree(root, real)
                    else:
                        import shutil
                        shutil.copyfile(root, real)
                linkroot = os.path.join(links, world.ROOT_NAME)
                if not os.path.lexists(linkroot):
                    os.symlink(os.path.join("..", "store", "rel-2024.d"),
                               linkroot)
            for dmg_set in dmg_sets:
                changed = apply_damage(files, dmg_set)
                if changed is None:
                    continue
                self.write_state(root, files, changed)
                disk = self.disk_of(files, changed)
                root_missing = single and changed.get(0, b"x") is None
                for fam in fams:
                    mpath, meta = metas[fam]
                    if mpath is None:
                        found.append((f"{self.id}|{fam}|setup-raised:"
                                      f"{type(meta).__name__}",
                                      {"world": w, "family": fam}, str(meta)))
                        continue
                    want, _verd, _tot = model.recheck_model(meta, disk, B)
                    if not dmg_set and abs(want - 100) > 1e-9 and \
                            fam not in OWN:
                        raise core.InfraError(
                            "reference metafile does not verify its own "
                            f"payload: {fam} {w}")
                    res.states += 1
                    if dmg_set:
                        res.extra["nontrivial"] += 1
                    for where, cpath in (("root", root), ("parent", parent),
                                         ("cli-root", root),
                                         ("cli-parent", parent),
                                         ("link-root", linkroot),
                                         ("parent-sorted", parent),
                                         ("parent-reversed", parent)):
                        if where == "link-root" and (dmg_set or not
                                                     linkroot):
                            continue
                        if where in ("parent-sorted", "parent-reversed") and \
                                (dmg_set or not linkroot):
                            continue
                        if where != "root" and dmg_set and \
                                dmg_set[0][0] != "rm" and not w.get("allcli"):
                            continue
                        if where.startswith("cli") and w["scale"] != "R":
                            continue
                        self.last_printed = None
                        lctx = seams.listing_order(
                            where.split("-")[1], under=parent) \
                            if where.startswith("parent-") else \
                            seams.nullctx()
                        with lctx:
                            got = self.run_impl(mpath, cpath,
                                                cli=where.startswith("cli"))
                        res.transitions += 1
                        res.evals += 1
                        res.validated += 1
                        bad = self.judge(fam, meta, dmg_set, got, want,
                                         root_missing)
                        if self.id == "C16" and not bad and got[0] == "pct" \
                                and not where.startswith("cli") \
                                and fam not in PADDED_V1:
                            # per-piece verdicts, judged only when the
                            # implementation cuts the same pieces as the model
                            vec = getattr(self, "last_vector", None)
                            if vec is not None and [sz for _, sz in vec] == \
                                    [sz for _, sz in _verd]:
                                res.extra["per_piece_vectors_compared"] += 1
                                if [bool(o) for o, _ in vec] != \
                                        [bool(o) for o, _ in _verd]:
                                    bad = [("C16", "per-piece-verdicts-differ")]
                        okey = (f"{w['scale']}:{dmg_class(dmg_set)}:"
                                f"{'ok' if not bad else bad[0][1]}")
                        res.outcomes[okey] += 1
                        for prop, prob in bad:
                            if prop != self.id:
                                continue
                            ver = model.meta_version_of(meta[b"info"])
                            sig = (f"{prop}|{fam}|v{ver}|{prob}|"
                                   f"{e1.world_class(w)}|{dmg_class(dmg_set)}")
                            found.append((sig, {
                                "world": w, "seed": seed, "family": fam,
                                "content": where,
                                "damage": [list(d) for d in dmg_set]},
                                {"reported": got, "reference": want}))
                self.write_state(root, files, changed, restore=True)
                # the same Checker object asked again after the content was
                # repaired (R scale, first damage of each kind per world)
                if dmg_set and w["scale"] == "R" and \
                        dmg_set[0][0] not in reuse_done:
                    reuse_done.add(dmg_set[0][0])
                    self.write_state(root, files, changed)
                    for fam in fams:
                        mpath, meta = metas[fam]
                        if mpath is None:
                            continue
                        if single and changed.get(0, b"x") is None:
                            continue
                        third = None
                        try:
                            with tf.quiet():
                                c = tf.recheck.Checker(mpath, root)
                                first = float(c.results())
                            self.write_state(root, files, changed,
                                             restore=True)
                            with tf.quiet():
                                second = float(c.results())
                            # and the other way round: asked on intact
                            # content first, then on the damaged one
                            with tf.quiet():
                                c2 = tf.recheck.Checker(mpath, root)
                                c2.results()
                            self.write_state(root, files, changed)
                            with tf.quiet():
                                third = float(c2.results())
                        except Exception as e:  # noqa
                            first = second = None
                        finally:
                            self.write_state(root, files, changed)
                        want_dmg, _v3, _t3 = model.recheck_model(
                            meta, self.disk_of(files, changed), B)
                        if third is not None and third >= 100 and \
                                want_dmg < 100 and self.id == "C04":
                            ver = model.meta_version_of(meta[b"info"])
                            found.append((
                                f"C04|{fam}|v{ver}|same-checker-object-"
                                f"reports-100-after-damage|"
                                f"{e1.world_class(w)}|{dmg_class(dmg_set)}",
                                {"world": w, "seed": seed, "family": fam,
                                 "content": "reuse",
                                 "damage": [list(d) for d in dmg_set]},
                                {"after_damage": third}))
                        res.transitions += 2
                        res.evals += 1
                        res.validated += 1
                        want0, _v, _t = model.recheck_model(
                            meta, self.disk_of(files, {}), B)
                        if second is not None and abs(second - want0) > 1e-9 \
                                and self.id in ("C05", "C16"):
                            ver = model.meta_version_of(meta[b"info"])
                            found.append((
                                f"{self.id}|{fam}|v{ver}|same-checker-object-"
                                f"reports-stale-result|{e1.world_class(w)}|"
                                f"{dmg_class(dmg_set)}",
                                {"world": w, "seed": seed, "family": fam,
                                 "content": "reuse",
                                 "damage": [list(d) for d in dmg_set]},
                                {"first": first, "second_after_repair": second,
                                 "reference": want0}))
                        res.outcomes["reuse:" + ("ok" if second is not None
                                     and abs(second - want0) <= 1e-9
                                     else "stale")] += 1
                    self.write_state(root, files, changed, restore=True)
        return found

    def run_env(self, g, res):
        """Environment forms at real scale (working directory and descriptors
        restored, the deep tree removed, whatever happens inside)."""
        import shutil
        home = os.open(".", os.O_RDONLY)
        keep = {"fds": [], "trees": []}
        try:
            return self._run_env(g, res, keep, home)
        finally:
            os.chdir(home)
            os.close(home)
            for fd in keep["fds"]:
                os.close(fd)
            for t in keep["trees"]:
                # descriptor-relative removal: works below PATH_MAX-long paths
                shutil.rmtree(t, ignore_errors=True)
                if os.path.lexists(t):
                    raise core.InfraError("deep scratch tree not removed: " + t)

    def _run_env(self, g, res, keep, home):
        """Environment forms at real scale; every family; intact content and
        each single removal / one flip per file."""
        import contextlib
        import shutil
        seed, form = g["seed"], g["form"]
        P = 16384
        w = {"scale": "R", "B": REAL_B, "P": P, "shape": g["shape"],
             "sizes": g["sizes"]}
        if form == "sparse":
            w["cids"] = ["holesA", "holesB", "holesC", "holesD"][
                :len(g["sizes"])]
        fams = families(g["tier"], world.nfiles(g["shape"]))
        found = []
        single = g["shape"] == "S1"
        with tf.scale(REAL_B):
            files, parent, root, metas = self.setup_world(w, seed, fams)
            base = os.path.dirname(parent)
            if form == "sparse":
                # same bytes, stored with holes
                shutil.rmtree(root) if os.path.isdir(root) else os.remove(root)
                world.materialize(files, parent, shape=w["shape"], sparse=True)
            linked = None
            if form == "linked-subdir":
                # the first sub-directory of the payload lives elsewhere and is
                # reached through a symbolic link
                sub = next(rel[0] for rel, _ in files if len(rel) > 1)
                store = os.path.join(base, "elsewhere")
                os.makedirs(store)
                shutil.move(os.path.join(root, sub), os.path.join(store, "dd"))
                os.symlink(os.path.join("..", "..", "elsewhere", "dd"),
                           os.path.join(root, sub))
                linked = sub
            # variants: (label, cwd, path argument, directory that is judged)
            variants = [("plain", None, root, root)]
            twin = None
            if form == "spell":
                variants = [("rel", parent, world.ROOT_NAME, root),
                            ("./rel", parent, "./" + world.ROOT_NAME, root),
                            ("parent-dot", parent, ".", root)]
                if not single:
                    variants.append(("trail-sep", None, root + os.sep, root))
                    variants.append(("dot", root, ".", root))
                    sub = next((rel[0] for rel, _ in files if len(rel) > 1),
                               None)
                    if sub:
                        variants.append(("dotdot", os.path.join(root, sub),
                                         "..", root))
                # link -> other/inbox: `link/../top` is other/top for the
                # operating system and parent/top for a textual collapse
                other = os.path.join(base, "other")
                os.makedirs(os.path.join(other, "inbox"))
                os.symlink(os.path.join(other, "inbox"),
                           os.path.join(parent, "link"))
                twin = world.materialize(files, other, shape=w["shape"])
                variants.append(("link/..-real-damaged", parent,
                                 "link/../" + world.ROOT_NAME, twin))
                variants.append(("link/..-lexical-damaged", parent,
                                 "link/../" + world.ROOT_NAME, twin))
            deepfd = None
            if form == "deep":
                # the payload is moved DEEP_LEVELS directories with 200-byte
                # names down, so that its absolute path (> 4800 bytes) exceeds
                # PATH_MAX: it can be named only relative to a working
                # directory inside the tree (the kernel resolves such a path
                # from the cwd inode; no limit applies to the cwd itself).
                # Built and entered one relative step at a time.
                keep["trees"].append(os.path.join(base, DEEP_NAMES[0]))
                os.chdir(base)
                for nm in DEEP_NAMES:
                    os.mkdir(nm)
                    os.chdir(nm)
                os.rename(root, world.ROOT_NAME)
                deepfd = os.open(".", os.O_RDONLY)
                keep["fds"].append(deepfd)
                try:
                    os.stat(os.path.join(os.getcwd(), world.ROOT_NAME))
                    raise core.InfraError("deep form: the absolute path of "
                                          "the content is still usable")
                except OSError:
                    pass
                rel_root = world.ROOT_NAME
                variants = [("deep-rel", deepfd, rel_root, rel_root),
                            ("deep-./rel", deepfd, "./" + rel_root, rel_root),
                            ("deep-parent-dot", deepfd, ".", rel_root)]
                if not single:
                    fd = os.open(rel_root, os.O_RDONLY)
                    keep["fds"].append(fd)
                    variants.append(("deep-dot", fd, ".", rel_root))
                    sub = next((rel[0] for rel, _ in files if len(rel) > 1),
                               None)
                    if sub:
                        fd = os.open(os.path.join(rel_root, sub), os.O_RDONLY)
                        keep["fds"].append(fd)
                        variants.append(("deep-dotdot", fd, "..", rel_root))
                os.chdir(home)
            dmgs = [()]
            for i, (rel, data) in enumerate(files):
                if data:
                    dmgs.append((("rm", i, 0),))
                    dmgs.append((("flip", i, len(data) // 2),))

            def target(tree_root, rel):
                return os.path.join(tree_root, *rel) if rel else tree_root

            @contextlib.contextmanager
            def inside(fd):
                if fd is None:
                    yield
                    return
                os.chdir(fd)
                try:
                    yield
                finally:
                    os.chdir(home)

            def set_state(tree_root, changed, restore=False):
                # (deep form: tree_root is relative to the deep directory)
                with inside(deepfd):
                    set_state_here(tree_root, changed, restore)

            def set_state_here(tree_root, changed, restore):
                for i in changed:
                    rel, orig = files[i]
                    pth = target(tree_root, rel)
                    data = orig if restore else changed[i]
                    if data is None:
                        if os.path.exists(pth):
                            os.remove(pth)
                        if form == "prune":
                            d = os.path.dirname(pth)
                            while d != tree_root and not os.listdir(d):
                                os.rmdir(d)
                                d = os.path.dirname(d)
                    else:
                        if os.path.dirname(pth):
                            os.makedirs(os.path.dirname(pth), exist_ok=True)
                        with open(pth, "wb") as f:
                            f.write(data)

            for dmg_set in dmgs:
                changed = apply_damage(files, dmg_set)
                if form == "prune" and (not dmg_set or dmg_set[0][0] != "rm"):
                    continue
                for label, cwd, arg, judged in variants:
                    # which tree carries the damage
                    damaged_tree = judged
                    if label == "link/..-lexical-damaged":
                        damaged_tree = root
                    if single and dmg_set and dmg_set[0][0] == "rm" and \
                            damaged_tree == judged:
                        continue
                    set_state(damaged_tree, changed)
                    disk = self.disk_of(files, changed if damaged_tree ==
                                        judged else {})
                    eff = dmg_set if damaged_tree == judged else ()
                    for fam in fams:
                        mpath, meta = metas[fam]
                        if mpath is None:
                            continue
                        want, _v, _t = model.recheck_model(meta, disk, REAL_B)
                        for cli in (False, True):
                            try:
                                if cwd is not None:
                                    os.chdir(cwd)   # a path or a descriptor
                                self.last_printed = None
                                got = self.run_impl(mpath, arg, cli=cli)
                            finally:
                                os.chdir(home)
                            res.states += 1
                            if eff or form != "sparse":
                                res.extra["nontrivial"] += 1
                            res.transitions += 1
                            res.evals += 1
                            res.validated += 1
                            bad = self.judge(fam, meta, eff, got, want, False)
                            res.outcomes[f"env:{form}:{dmg_class(eff)}:"
                                         f"{'ok' if not bad else bad[0][1]}"] += 1
                            for prop, prob in bad:
                                if prop != self.id:
                                    continue
                                ver = model.meta_version_of(meta[b"info"])
                                found.append((
                                    f"{prop}|{fam}|v{ver}|{prob}|env:{form}:"
                                    f"{label}|{dmg_class(eff)}",
                                    {"kind": "env", "group": g,
                                     "variant": label + (":cli" if cli else ""),
                                     "family": fam,
                                     "damage": [list(d) for d in dmg_set]},
                                    {"reported": got, "reference": want,
                                     "linked": linked}))
                    set_state(damaged_tree, changed, restore=True)
        return found

    # ------------------------------------------------------------------
    def run_penv(self, g, res):
        """Process-environment axis: the recheck runs in a child interpreter
        under envrun.ENVS[g['env']]; the harness (this process) builds the
        world, the metafiles and the reference.  A number that comes back is
        judged by the ordinary oracle; a refusal (exception, death of the
        child) reports no number and is recorded, never judged."""
        import re
        seed, env = g["seed"], g["env"]
        w = {"scale": "R", "B": REAL_B, "P": PENV_P, "shape": g["shape"],
             "sizes": PENV_SIZES}
        fams = list(g["fams"])
        dmg_set = tuple(tuple(d) for d in g["damage"])
        found = []
        with tf.scale(REAL_B):
            files, parent, root, metas = self.setup_world(w, seed, fams)
            changed = apply_damage(files, dmg_set)
            self.write_state(root, files, changed)
            disk = self.disk_of(files, changed)
            for fam in fams:
                mpath, meta = metas[fam]
                if mpath is None:
                    found.append((f"{self.id}|{fam}|setup-raised:"
                                  f"{type(meta).__name__}",
                                  {"kind": "penv", "group": g, "family": fam,
                                   "route": "setup"}, str(meta)))
                    continue
                want, _v, _t = model.recheck_model(meta, disk, REAL_B)
                if not dmg_set and abs(want - 100) > 1e-9 and fam not in OWN:
                    raise core.InfraError("reference metafile does not "
                                          f"verify its own payload: {fam} {w}")
                ver = model.meta_version_of(meta[b"info"])
                for where in g["paths"]:
                    cpath = root if where == "root" else parent
                    for route in ("lib", "cli"):
                        rep = envrun.run(env, PENV_BODY[route].format(
                            m=mpath, c=cpath))
                        res.states += 1
                        res.transitions += 1
                        res.evals += 1
                        res.validated += 1
                        if env != "default" or dmg_set:
                            res.extra["nontrivial"] += 1
                        res.extra["child_interpreters"] += 1
                        obs = rep.get("obs")
                        # the result line the command printed (stdout a pipe)
                        self.last_printed = None
                        if route == "cli" and rep.get("out"):
                            text = " ".join(
                                ln.replace(mpath, " ").replace(cpath, " ")
                                for ln in rep["out"].replace(
                                    "\r", "\n").split("\n")
                                if mpath in ln and cpath in ln)
                            self.last_printed = [float(x) for x in re.findall(
                                r"(?<![\w.])(\d+(?:\.\d+)?)\s*%", text)]
                        if rep.get("ok") and isinstance(obs, dict) and \
                                isinstance(obs.get("pct"), (int, float)):
                            got = ("pct", float(obs["pct"]))
                            bad = self.judge(fam, meta, dmg_set, got, want,
                                             False)
                            what = "ok" if not bad else bad[0][1]
                        else:
                            # a refusal: no number came back.  Only a result
                            # line that was printed all the same is judged.
                            exc = rep.get("exc") or (
                                "died" if not rep.get("report") else "none")
                            got = ("refused:" + str(exc),
                                   (rep.get("msg") or rep.get("err") or "")[
                                       -200:])
                            bad = []
                            pr = self.last_printed or []
                            if dmg_set and want < 100 and \
                                    any(x >= 100 for x in pr):
                                bad.append(("C04", "damaged-printed-as-100"))
                            if not dmg_set and abs(want - 100) < 1e-9 and \
                                    any(x != 100 for x in pr):
                                bad.append(("C05", "intact-printed-below-100"))
                            what = "refused:" + str(exc) if not bad \
                                else bad[0][1]
                            res.extra["refusals_recorded_not_judged"] += 1
                        res.outcomes[f"penv:{env}:{dmg_class(dmg_set)}:"
                                     f"{what}"] += 1
                        for prop, prob in bad:
                            if prop != self.id:
                                continue
                            found.append((
                                f"{prop}|{fam}|v{ver}|{prob}|penv:{env}:"
                                f"{g['shape']}|{dmg_class(dmg_set)}",
                                {"kind": "penv", "group": g, "family": fam,
                                 "route": route, "content": where},
                                {"reported": got, "reference": want,
                                 "printed": self.last_printed,
                                 "stderr_tail": (rep.get("err") or "")[-300:]}))
            self.last_printed = None
        return found

    # ------------------------------------------------------------------
    def run_kept(self, g, res):
        """Kept Checker objects (library surface), real scale, one family:
        (a) the object is constructed while the payload is incomplete (a file
        missing / a sub-directory missing / a file shorter), the payload is
        completed, then the object is asked; (b) a walk over iter_hashes() is
        abandoned after k items (generator dropped or still held), then the
        object is asked - on the same disk, after a repair, after a damage.
        Every answer is judged by the ordinary oracle for the disk as it is
        at the moment of asking."""
        import shutil
        seed, fam = g["seed"], g["family"]
        w = {"scale": "R", "B": REAL_B, "P": PENV_P, "shape": g["shape"],
             "sizes": g["sizes"]}
        found = []

        def prune(root):
            for dp, dns, fns in os.walk(root, topdown=False):
                if dp != root and not os.listdir(dp):
                    os.rmdir(dp)

        with tf.scale(REAL_B):
            files, parent, root, metas = self.setup_world(w, seed, [fam])
            mpath, meta = metas[fam]
            if mpath is None:
                return [(f"{self.id}|{fam}|setup-raised:"
                         f"{type(meta).__name__}",
                         {"kind": "kept", "group": g, "label": "setup"},
                         str(meta))]
            ver = model.meta_version_of(meta[b"info"])

            def set_disk(changed):
                """Put the payload into the state `changed` describes
                (everything else intact)."""
                for i, (rel, orig) in enumerate(files):
                    pth = os.path.join(root, *rel)
                    data = changed.get(i, orig)
                    if data is None:
                        if os.path.exists(pth):
                            os.remove(pth)
                        continue
                    if os.path.exists(pth) and \
                            os.path.getsize(pth) == len(data):
                        with open(pth, "rb") as f:
                            if f.read() == data:
                                continue
                    world.write_file(pth, data)

            def want_for(changed):
                return model.recheck_model(
                    meta, self.disk_of(files, changed), REAL_B)[0]

            def ask(c, how):
                with tf.quiet():
                    if how == "iter":
                        for _item in c.iter_hashes():
                            pass
                        return float(c._result)
                    return float(c.results())

            def verdict(label, form, dmg_now, changed_now, got):
                """Judge one answer against the disk as it is now."""
                want = want_for(changed_now)
                self.last_printed = None
                bad = self.judge(fam, meta, dmg_now, got, want, False)
                res.states += 1
                res.extra["nontrivial"] += 1
                res.evals += 1
                res.validated += 1
                res.outcomes[f"kept:{form}:{dmg_class(dmg_now)}:"
                             f"{'ok' if not bad else bad[0][1]}"] += 1
                for prop, prob in bad:
                    if prop != self.id:
                        continue
                    found.append((
                        f"{prop}|{fam}|v{ver}|{prob}|kept:{form}|"
                        f"{dmg_class(dmg_now)}",
                        {"kind": "kept", "group": g, "label": label},
                        {"reported": got, "reference": want}))

            # (a) constructed while the payload was incomplete ------------
            incomplete = []
            for i, (rel, data) in enumerate(files):
                incomplete.append((f"file{i}-missing", "made-while-file-"
                                   "missing", {i: None}, False))
                if data:
                    incomplete.append((f"file{i}-shorter", "made-while-file-"
                                       "shorter", {i: data[:len(data) // 2]},
                                       False))
            for sub in sorted({rel[0] for rel, _ in files if len(rel) > 1}):
                incomplete.append((
                    f"subdir-{sub}-missing", "made-while-subdir-missing",
                    {i: None for i, (rel, _) in enumerate(files)
                     if len(rel) > 1 and rel[0] == sub}, True))
            for tag, form, changed, rmdirs in incomplete:
                for where, cpath in (("root", root), ("parent", parent)):
                    for how in ("results", "iter"):
                        label = f"{tag}:{where}:{how}"
                        set_disk(changed)
                        if rmdirs:
                            prune(root)
                        try:
                            with tf.quiet():
                                c = tf.recheck.Checker(mpath, cpath)
                            set_disk({})
                            got = ("pct", ask(c, how))
                        except Exception as e:  # noqa
                            got = ("raised:" + type(e).__name__, str(e)[:160])
                        finally:
                            set_disk({})
                        res.transitions += 1
                        verdict(label, form, (), {}, got)

            # (b) a walk over iter_hashes() abandoned midway ----------------
            dmgs = [()]
            for i, (rel, data) in enumerate(files):
                if data:
                    dmgs.append((("flip", i, len(data) // 2),))
                    dmgs.append((("rm", i, 0),))
                    dmgs.append((("trunc", i, len(data) // 2),))
            first_dmgs = [d for d in dmgs if d][:2] + \
                [d for d in dmgs if d][-1:]
            for dmg in dmgs:
                changed = apply_damage(files, dmg)
                set_disk(changed)
                try:
                    with tf.quiet():
                        items = list(tf.recheck.Checker(
                            mpath, root).iter_hashes())
                except Exception:  # noqa
                    items = []
                n = len(items)
                fb = next((j + 1 for j, it in enumerate(items)
                           if it[0] != it[1]), None)
                ks = []
                for name, k in (("k1", 1), ("first-bad", fb),
                                ("all-but-one", n - 1)):
                    if k is not None and 1 <= k < n and \
                            k not in [x for _, x in ks]:
                        ks.append((name, k))
                # what the disk becomes before the object is asked
                if dmg:
                    nexts = [("same-disk", dmg, changed),
                             ("then-repaired", (), {})]
                else:
                    nexts = [("same-disk", (), {})] + [
                        ("then-damaged-" + dmg_class(d), d,
                         apply_damage(files, d)) for d in first_dmgs]
                for kname, k in ks:
                    for hold in ("dropped", "held"):
                        for nname, ndmg, nchanged in nexts:
                            label = (f"abandoned:{dmg_class(dmg)}:"
                                     f"{[list(d) for d in dmg]}:{kname}:"
                                     f"{hold}:{nname}:"
                                     f"{[list(d) for d in ndmg]}")
                            set_disk(changed)
                            gen = None
                            try:
                                with tf.quiet():
                                    c = tf.recheck.Checker(mpath, root)
                                    gen = c.iter_hashes()
                                    for _ in range(k):
                                        next(gen)
                                    if hold == "dropped":
                                        gen.close()
                                        gen = None
                                set_disk(nchanged)
                                got = ("pct", ask(c, "results"))
                            except Exception as e:  # noqa
                                got = ("raised:" + type(e).__name__,
                                       str(e)[:160])
                            finally:
                                if gen is not None:
                                    with tf.quiet():
                                        gen.close()
                            res.transitions += 2
                            verdict(label,
                                    f"abandoned-{kname}:"
                                    f"{nname.split('-')[0]}-"
                                    f"{nname.split('-')[1]}",
                                    ndmg, nchanged, got)
            set_disk({})
            shutil.rmtree(os.path.dirname(parent), ignore_errors=True)
        return found

    def run_group(self, g):
        if g.get("kind") == "iofault":
            return self.run_iofault(g)
        if g.get("kind") in ("penv", "kept"):
            res = core.Result()
            fn = self.run_penv if g["kind"] == "penv" else self.run_kept
            for sig, case, d in fn(g, res):
                res.violation(sig, case, d)
            res.sample({k: v for k, v in g.items() if k != "seed"})
            return res
        if g.get("kind") == "env":
            res = core.Result()
            for sig, case, d in self.run_env(g, res):
                res.violation(sig, case, d)
            res.sample({"kind": "env", "form": g["form"],
                        "shape": g["shape"], "sizes": g["sizes"]})
            return res
        res = core.Result()
        seed = g["seed"]
        fams = families(g["tier"], world.nfiles(g["shape"]))
        if g["shape"] == "D1n":
            # a v2-only metafile cannot tell this shape from a single file
            fams = [f for f in fams if "v2" not in f.lower()]
        confirmed = {}
        if g.get("fams"):
            fams = list(g["fams"])
        for sizes in (g["sizes_list"] if "sizes_list" in g else
                      e1.iter_sizes(g["shape"], g["alpha"], g["first"])):
            if sum(sizes) == 0:
                continue
            w = {"scale": g["scale"], "B": g["B"], "P": g["P"],
                 "shape": g["shape"], "sizes": sizes}
            if g.get("cids"):
                w["cids"] = g["cids"]
            if g.get("allcli"):
                w["allcli"] = True
            files = world.files_of(w, seed)
            singles = damages_for(files, g["P"],
                                  "R" if g.get("long") else g["scale"], None)
            if g.get("dmg_stride", 1) > 1:
                singles = [d for d in singles if d[1] % g["dmg_stride"] == 0]
            if g.get("dmg_part"):
                k, m = g["dmg_part"]
                singles = [d for j, d in enumerate(singles) if j % m == k]
            dmg_sets = [()] + [(d,) for d in singles]
            n = len(sizes)
            budget = {1: 2 * g["P"] + 1, 2: 2 * g["P"] + 2,
                      3: g["P"] + 3}.get(n, 0)
            if g["maxdmg"] >= 2 and sum(sizes) <= budget:
                dmg_sets += [c for c in itertools.combinations(singles, 2)
                             if c[0][1] != c[1][1] or
                             (c[0][0] == "flip" and c[1][0] == "flip")]
            found = self.explore_world(w, seed, fams, dmg_sets, res)
            res.sample({"world": w, "families": fams,
                        "damage_sets": len(dmg_sets)})
            if g["scale"] == "R":
                for sig, case, detail in found:
                    res.violation(sig, case, detail)
                continue
            # S: confirm each disagreement at R before reporting it
            small = world.nfiles(g["shape"]) <= 2 and not g.get("long")
            todo = []
            for sig, case, detail in found:
                if confirmed.get(sig, 0) >= 2:
                    res.extra["S_disagreements_not_replayed_over_cap"] += 1
                    continue
                confirmed[sig] = confirmed.get(sig, 0) + 1
                todo.append((sig, case))
            rw = e1.world_to_real(w)
            if max(rw["sizes"]) > (1 << 25):
                continue
            for sig, case in todo:
                rd = tuple(map_damage_to_real(tuple(d), g["B"])
                           for d in case["damage"])
                rfound = self.explore_world(rw, seed, [case["family"]], [rd],
                                            res)
                res.conformance += 1
                hit = [f for f in rfound if f[1]["content"] == case["content"]]
                if not hit:
                    res.extra["S_R_vector_mismatch"] += 1
                    res.notes.add("scaled model void for some cases: S "
                                  "disagreement did not reproduce at R: "
                                  + repr((sig, case))[:300])
                for rsig, rcase, rdetail in hit:
                    res.violation(rsig, rcase, rdetail)
            if small and not todo:
                # conformance replay of the intact + removal cases at R
                rsets = [()] + [(d,) for d in damages_for(
                    world.files_of(rw, seed), rw["P"], "R", None)
                    if d[0] == "rm"]
                rfound = self.explore_world(rw, seed, fams, rsets, res)
                res.conformance += len(rsets)
                for rsig, rcase, rdetail in rfound:
                    res.violation(rsig, rcase, rdetail)
        return res

    def replay(self, case):
        if case.get("kind") == "env":
            res = core.Result()
            return [{"sig": sg, "detail": d}
                    for sg, c, d in self.run_env(case["group"], res)
                    if c["variant"] == case["variant"]
                    and c["family"] == case["family"]
                    and c["damage"] == case["damage"]]
        if case.get("kind") == "penv":
            res = core.Result()
            grp = dict(case["group"], fams=[case["family"]],
                       paths=[case["content"]])
            return [{"sig": sg, "detail": d}
                    for sg, c, d in self.run_penv(grp, res)
                    if c["route"] == case["route"]]
        if case.get("kind") == "kept":
            res = core.Result()
            return [{"sig": sg, "detail": d}
                    for sg, c, d in self.run_kept(case["group"], res)
                    if c["label"] == case["label"]]
        if case.get("kind") == "iofault":
            r = self.run_iofault({"family": case["family"],
                                  "seed": case["seed"], "tier": "quick"})
            return [{"sig": v["sig"], "detail": v["detail"]}
                    for v in r.violations
                    if v["case"]["vector"] == case["vector"]]
        res = core.Result()
        dmg = tuple(tuple(d) for d in case["damage"])
        found = self.explore_world(case["world"], case["seed"],
                                   [case["family"]], [dmg], res)
        return [{"sig": s, "detail": d} for s, c, d in found
                if c["content"] == case["content"]]



def make(pid):
    return RecheckCheck(pid)
